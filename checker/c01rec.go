package main

// R-C01-RECURSION: "never kills the process (e.g. by unbounded recursion)". The compile side of the engine is a set of
// mutually recursive functions (recursive-descent parser, tag parsers that parse bodies, tags that load other templates).
// How deep they recurse is decided by the SOURCE: brackets, nested tags, right-associative operator chains, templates
// that refer to each other. Every cycle of that call graph has to pass a depth step — a counter compared with a
// constant whose refusing edge returns an error — or a source of a few hundred kilobytes ends the process with a stack
// overflow. Decided on the call graph (static and dynamic edges): after removing every call that is reached only behind
// such a step in its own function, no cycle may remain among the functions reachable from the compile entry points.

import (
	"go/token"
	"go/types"
	"sort"
	"strings"

	"golang.org/x/tools/go/ssa"
)

// counterCarriedOnly: only counters that are handed from call to call (parameters) count. A counter kept in the parser or
// in the template being compiled starts anew in every template: it bounds the nesting inside one source, not a cycle
// that passes through the loading of another template.
var counterCarriedOnly = false

// isCounter: x, compared with a constant in f, counts levels: a load of an integer field that f itself adds to (p.depth
// += n; p.template.level++), or an integer parameter of an unexported function for which every call site passes a
// constant or `something + k` with k > 0 (fromFile(name, depth+1)). `arguments.Remaining() > 0` or `level > 1` in a
// function that does not count are ordinary tests, not depth steps.
func isCounter(p *Prog, f *ssa.Function, x ssa.Value) bool {
	if !isIntType(x.Type()) {
		return false
	}
	if _, isParam := x.(*ssa.Parameter); counterCarriedOnly && !isParam {
		return false
	}
	fieldOf := func(v ssa.Value) (*ssa.FieldAddr, bool) {
		if u, ok := v.(*ssa.UnOp); ok && u.Op == token.MUL {
			fa, ok := u.X.(*ssa.FieldAddr)
			return fa, ok
		}
		return nil, false
	}
	sameField := func(a, b *ssa.FieldAddr) bool {
		return a.Field == b.Field && types.Identical(a.X.Type(), b.X.Type())
	}
	switch v := x.(type) {
	case *ssa.Parameter:
		acts := paramActuals(p, v)
		if len(acts) == 0 {
			return false
		}
		for _, act := range acts {
			if _, isK := constInt(act); isK {
				continue
			}
			bo, ok := act.(*ssa.BinOp)
			if !ok || bo.Op != token.ADD {
				return false
			}
			if k, isK := constInt(bo.Y); !isK || k <= 0 {
				return false
			}
		}
		return true
	case *ssa.BinOp:
		// the sum of two counters (the expression's own depth plus the level of the tags around it): a counter
		if v.Op == token.ADD && !counterCarriedOnly {
			other := func(y ssa.Value) bool {
				if _, isK := constInt(y); isK {
					return true
				}
				fa, ok := fieldOf(y)
				return ok && isIntType(y.Type()) && steppedSomewhere(p, fa)
			}
			if (isCounter(p, f, v.X) && other(v.Y)) || (isCounter(p, f, v.Y) && other(v.X)) {
				return true
			}
		}
		// the sum that is also stored: `p.depth + n` compared directly
		if v.Op == token.ADD {
			if fa, ok := fieldOf(v.X); ok {
				for _, ref := range *v.Referrers() {
					if st, ok := ref.(*ssa.Store); ok && st.Val == ssa.Value(v) {
						if fb, ok := st.Addr.(*ssa.FieldAddr); ok && sameField(fa, fb) {
							return true
						}
					}
				}
			}
		}
		return false
	case *ssa.UnOp:
		fa, ok := fieldOf(v)
		if !ok {
			return false
		}
		// f adds to that field — before the load, or (test first, then count) behind it
		for _, fn := range withClosures(topLevel(f)) {
			if fn != f {
				continue
			}
			for _, b := range fn.Blocks {
				for _, in := range b.Instrs {
					st, ok := in.(*ssa.Store)
					if !ok {
						continue
					}
					fb, ok := st.Addr.(*ssa.FieldAddr)
					if !ok || !sameField(fa, fb) {
						continue
					}
					add, ok := st.Val.(*ssa.BinOp)
					if !ok || add.Op != token.ADD {
						continue
					}
					if k, isK := constInt(add.Y); !isK || k <= 0 {
						continue
					}
					if fc, ok := fieldOf(add.X); ok && sameField(fa, fc) && ReachesFromInstr(v, in) && v.Block().Dominates(in.Block()) {
						return true
					}
				}
			}
		}
		return MustPass(v, func(in ssa.Instruction) bool {
			st, ok := in.(*ssa.Store)
			if !ok {
				return false
			}
			fb, ok := st.Addr.(*ssa.FieldAddr)
			if !ok || !sameField(fa, fb) {
				return false
			}
			add, ok := st.Val.(*ssa.BinOp)
			if !ok || add.Op != token.ADD {
				return false
			}
			fc, ok := fieldOf(add.X)
			return ok && sameField(fa, fc)
		})
	}
	return false
}

// refusingCompare: cond is `counter > K` / `counter >= K` in f and the edge on which it holds returns a non-nil error.
func refusingCompare(p *Prog, f *ssa.Function, cond ssa.Value) bool {
	bo, ok := cond.(*ssa.BinOp)
	if !ok {
		return false
	}
	x, y, op := bo.X, bo.Y, bo.Op
	if _, isK := constInt(x); isK {
		// K < counter
		x, y = y, x
		switch op {
		case token.LSS:
			op = token.GTR
		case token.LEQ:
			op = token.GEQ
		default:
			return false
		}
	}
	if op != token.GTR && op != token.GEQ {
		return false
	}
	if _, isK := constInt(y); !isK || !isCounter(p, f, x) {
		return false
	}
	for _, b := range f.Blocks {
		iff, isIf := b.Instrs[len(b.Instrs)-1].(*ssa.If)
		if !isIf {
			continue
		}
		if cc, pp := normCond(iff.Cond, true); cc == cond {
			idx := 0
			if !pp {
				idx = 1
			}
			return errorReturnsOnly(f, b.Succs[idx])
		}
	}
	return false
}

// depthStepFunc: f counts a level and refuses beyond a constant with a non-nil error (a helper like (*Parser).deeper).
func depthStepFunc(p *Prog, f *ssa.Function) bool { return depthStepFuncD(p, f, 0) }

func depthStepFuncD(p *Prog, f *ssa.Function, depth int) bool {
	if f == nil || f.Blocks == nil || !p.InPkg(f) || errorResultIndex(f) < 0 {
		return false
	}
	// a thin wrapper of a step (`stack()`: raise the mark, then `return p.deeper(1)`): every return hands on the result
	// of a step, stands behind one, or is a refusal
	if depth < 2 && len(f.Blocks) <= 6 {
		ei := errorResultIndex(f)
		steps, all := 0, true
		for _, ret := range returnsOf(f) {
			if ei >= len(ret.Results) {
				all = false
				break
			}
			v := res(ret, ei)
			if c, ok := v.(*ssa.Call); ok && c.Common().StaticCallee() != nil && c.Common().StaticCallee() != f && depthStepFuncD(p, c.Common().StaticCallee(), depth+1) {
				steps++
				continue
			}
			if definitelyNonNil(v, 0) || guardedNonNil(ret, v) {
				continue
			}
			all = false
		}
		if all && steps > 0 {
			return true
		}
	}
	for _, b := range f.Blocks {
		iff, ok := b.Instrs[len(b.Instrs)-1].(*ssa.If)
		if !ok {
			continue
		}
		if c, _ := normCond(iff.Cond, true); refusingCompare(p, f, c) {
			// (a comparison of a high-water mark refuses a tree that is too high; it is no step of the counter: what is
			// parsed behind it is not one level deeper)
			if bo, ok := c.(*ssa.BinOp); ok && c01ReadsMark(p, bo.X) {
				continue
			}
			return true
		}
	}
	return false
}

func c01ReadsMark(p *Prog, v ssa.Value) bool {
	if fa, _, ok := c01FieldLoad(v); ok {
		return c01MarkOf(p, fa) != nil
	}
	if add, ok := v.(*ssa.BinOp); ok && add.Op == token.ADD {
		return c01ReadsMark(p, add.X) || c01ReadsMark(p, add.Y)
	}
	return false
}

// behindDepthStep: the call c is reached only after a depth step in its own function: on the nil edge of the result of
// a depthStepFunc, or on the accepting edge of a refusing comparison of a counter with a constant.
func behindDepthStep(p *Prog, c ssa.Instruction) bool {
	return Guarded(c, depthStepEdge(p, c.Parent())) || behindBoolDepthStep(p, c)
}

// depthStepEdge: the edge of a branch of f on which a depth step has been taken and was within its bound.
func depthStepEdge(p *Prog, f *ssa.Function) EdgePred {
	return (func(cond ssa.Value, pol bool) bool {
		bo, ok := cond.(*ssa.BinOp)
		if !ok {
			return false
		}
		if bo.Op == token.EQL || bo.Op == token.NEQ {
			// err == nil (pol true) / err != nil (pol false) on the result of a depth-step helper
			if (bo.Op == token.EQL) != pol {
				return false
			}
			for _, side := range []ssa.Value{bo.X, bo.Y} {
				v := side
				if ex, ok := v.(*ssa.Extract); ok {
					v = ex.Tuple
				}
				if cc, ok := v.(*ssa.Call); ok && cc.Common().StaticCallee() != nil && depthStepFunc(p, cc.Common().StaticCallee()) {
					return true
				}
			}
			return false
		}
		if !pol && refusingCompare(p, f, cond) {
			return true
		}
		return false
	})
}

// behindBoolDepthStep: c is reached only on the `within` edge of the result of an enter-helper (boolDepthStep) whose
// other edge only returns errors.
func behindBoolDepthStep(p *Prog, c ssa.Instruction) bool {
	f := c.Parent()
	return Guarded(c, func(cond ssa.Value, pol bool) bool {
		bs, _, ok := boolStepCond(p, cond)
		if !ok || pol != bs.withinWhen {
			return false
		}
		// the other edge of the branch on this condition returns errors only
		for _, b := range f.Blocks {
			iff, isIf := b.Instrs[len(b.Instrs)-1].(*ssa.If)
			if !isIf {
				continue
			}
			cc, pp := normCond(iff.Cond, true)
			if stripLoad(cc) != stripLoad(cond) {
				continue
			}
			// Succs[0] is taken when iff.Cond holds, i.e. when cc == pp
			refusing := 0
			if pp == bs.withinWhen {
				refusing = 1
			}
			return errorReturnsOnly(f, b.Succs[refusing])
		}
		return false
	})
}

func ruleC01Recursion(p *Prog, a *Anchors, r *Report) {
	r.Begin("R-C01-RECURSION", "every cycle of the compile-time call graph (parser functions, tag parsers, template loading) passes a depth step — a counter compared with a constant, refusing with an error: the nesting a source can ask for is bounded", 2)
	reach := a.CompileReach()
	// graph over reachable package functions, edges = calls that are NOT behind a depth step
	type edge struct {
		to   *ssa.Function
		site ssa.Instruction
	}
	adj := map[*ssa.Function][]edge{}
	var nodes []*ssa.Function
	nGuarded := 0
	stepSeen := map[string]bool{}
	full := map[*ssa.Function][]*ssa.Function{}
	allEdges := map[*ssa.Function][]edge{}
	var removed []struct {
		from *ssa.Function
		e    edge
	}
	// the functions that take part in turning a source into a compiled template: methods of the parser and the lexer,
	// the registered tag parsers, and the functions that load and construct templates. (The recursion of Evaluate,
	// Execute, FilterApplied … follows the compiled tree, whose depth is what the parse-time bound bounds; macro calls
	// and nested executions have their own rules.)
	tagParser := map[*ssa.Function]bool{}
	for _, tp := range a.TagParsers {
		tagParser[tp] = true
	}
	parseSide := func(f *ssa.Function) bool {
		top := topLevel(f)
		if tagParser[top] || top == a.NewTemplate || a.FileLoaders[top] {
			return true
		}
		if recv := top.Signature.Recv(); recv != nil {
			if n := structOf(recv.Type()); n != nil {
				switch n.Obj().Name() {
				case "Parser", "lexer":
					return true
				case "Template", "TemplateSet":
					// construction and loading, not execution
					for i := 0; i < top.Signature.Params().Len(); i++ {
						if types.Identical(top.Signature.Params().At(i).Type(), a.Context) {
							return false
						}
					}
					return true
				}
			}
			return false
		}
		// a plain function that works on a parser or a lexer (an extracted helper)
		for i := 0; i < top.Signature.Params().Len(); i++ {
			if n := structOf(top.Signature.Params().At(i).Type()); n != nil && (n.Obj().Name() == "Parser" || n.Obj().Name() == "lexer") {
				return true
			}
		}
		return strings.HasPrefix(top.Name(), "newTemplate") || top.Name() == "lex"
	}
	for f := range reach {
		if !p.InPkg(f) || f.Blocks == nil || !parseSide(f) {
			continue
		}
		nodes = append(nodes, f)
		node := p.CG.Nodes[f]
		if node == nil {
			continue
		}
		for _, e := range node.Out {
			g := e.Callee.Func
			if !p.InPkg(g) || g.Blocks == nil || !reach[g] || !parseSide(g) {
				continue
			}
			site, ok := e.Site.(ssa.Instruction)
			if !ok {
				continue
			}
			full[f] = append(full[f], g)
			allEdges[f] = append(allEdges[f], edge{g, site})
			if behindDepthStep(p, site) {
				nGuarded++
				removed = append(removed, struct {
					from *ssa.Function
					e    edge
				}{f, edge{g, site}})
				continue
			}
			adj[f] = append(adj[f], edge{g, site})
		}
	}
	sortFuncs(p, nodes)
	// one obligation per removed call that closes a cycle (its callee reaches its caller in the full graph)
	reaches := func(from, to *ssa.Function) bool {
		seen := map[*ssa.Function]bool{from: true}
		work := []*ssa.Function{from}
		for len(work) > 0 {
			x := work[len(work)-1]
			work = work[:len(work)-1]
			if x == to {
				return true
			}
			for _, y := range full[x] {
				if !seen[y] {
					seen[y] = true
					work = append(work, y)
				}
			}
		}
		return false
	}
	for _, rm := range removed {
		k := p.FuncName(rm.from) + "→" + p.FuncName(rm.e.to)
		if stepSeen[k] || !reaches(rm.e.to, rm.from) {
			continue
		}
		stepSeen[k] = true
		r.OK("depth-step "+k, p.InstrPos(rm.e.site), "this call, which closes a cycle of the compile-time call graph, is reached only behind a depth step (a counter compared with a constant whose refusing edge returns an error)")
	}
	// Tarjan SCC
	index, low := map[*ssa.Function]int{}, map[*ssa.Function]int{}
	onStack := map[*ssa.Function]bool{}
	var stack []*ssa.Function
	var sccs [][]*ssa.Function
	n := 0
	var strong func(v *ssa.Function)
	strong = func(v *ssa.Function) {
		n++
		index[v], low[v] = n, n
		stack = append(stack, v)
		onStack[v] = true
		for _, e := range adj[v] {
			w := e.to
			if index[w] == 0 {
				strong(w)
				if low[w] < low[v] {
					low[v] = low[w]
				}
			} else if onStack[w] && index[w] < low[v] {
				low[v] = index[w]
			}
		}
		if low[v] == index[v] {
			var comp []*ssa.Function
			for {
				w := stack[len(stack)-1]
				stack = stack[:len(stack)-1]
				onStack[w] = false
				comp = append(comp, w)
				if w == v {
					break
				}
			}
			sccs = append(sccs, comp)
		}
	}
	for _, v := range nodes {
		if index[v] == 0 {
			strong(v)
		}
	}
	bad := 0
	for _, comp := range sccs {
		self := false
		if len(comp) == 1 {
			for _, e := range adj[comp[0]] {
				if e.to == comp[0] {
					self = true
				}
			}
			if !self {
				continue
			}
		}
		// a cycle without a depth step
		sortFuncs(p, comp)
		var names []string
		inComp := map[*ssa.Function]bool{}
		for _, f := range comp {
			inComp[f] = true
			names = append(names, p.FuncName(f))
		}
		// one unguarded call of the cycle, for the report
		pos := "-"
		for _, f := range comp {
			for _, e := range adj[f] {
				if inComp[e.to] && pos == "-" {
					pos = p.InstrPos(e.site)
				}
			}
		}
		if len(names) > 8 {
			names = append(names[:8], "…")
		}
		bad++
		r.Bad("cycle "+names[0], pos, "these functions call each other in a cycle that passes no depth step: %s — a source that nests this deeply (brackets, operator chains, tags, templates) recurses until the stack is exhausted, which ends the process", strings.Join(names, " → "))
	}
	if bad == 0 {
		r.OK("compile-graph", "-", "%d functions reachable from the compile entries; after removing %d calls that stand behind a depth step no cycle remains", len(nodes), nGuarded)
	}
	if nGuarded == 0 {
		r.Bad("depth-steps", "-", "no call of the compile-time call graph stands behind a depth step at all")
	}
	// cycles through the loading of another template: only a counter that is carried along (a depth parameter) bounds
	// them — the parser's and the template's own counters start at zero in every template
	if a.NewTemplate != nil {
		counterCarriedOnly = true
		adj2 := map[*ssa.Function][]*ssa.Function{}
		for f, es := range allEdges {
			for _, e := range es {
				if !behindDepthStep(p, e.site) {
					adj2[f] = append(adj2[f], e.to)
				}
			}
		}
		counterCarriedOnly = false
		// does the constructor reach itself?
		seen := map[*ssa.Function]bool{}
		work := append([]*ssa.Function{}, adj2[a.NewTemplate]...)
		cyc := false
		for len(work) > 0 {
			x := work[len(work)-1]
			work = work[:len(work)-1]
			if x == a.NewTemplate {
				cyc = true
				break
			}
			if seen[x] {
				continue
			}
			seen[x] = true
			work = append(work, adj2[x]...)
		}
		if cyc {
			r.Bad("cycle through template loading", p.Pos(a.NewTemplate.Pos()), "compiling a template can load and compile another one (extends, include, import, ssi) and so on without passing a depth step whose counter is carried from template to template: templates that refer to each other in a cycle (or a long chain) recurse until the stack is exhausted")
		} else {
			r.OK("cycle through template loading", p.Pos(a.NewTemplate.Pos()), "every path from the template constructor back to itself passes a depth step on a counter that is handed from template to template")
		}
	}
	_ = sort.Strings
}

// R-C01-SUPER (re-entry from a template). Besides macros (R-C01-MACRO) a template can call back into the engine through
// the methods of values the ENGINE puts into the context ({{ block.Super }}): an exported method with an
// ExecutionContext parameter that executes nodes. Definitions that use it can render each other in a cycle that no
// compile-time check sees, so every such method has to count a level — the context it executes in carries a counter one
// higher than the calling context's — and execution has to refuse beyond a constant bound of that counter.
func ruleC01Reentry(p *Prog, a *Anchors, r *Report) {
	r.Begin("R-C01-SUPER", "a method the engine exposes to templates through the context (block.Super) and that executes nodes does so in a context whose nesting counter is one more than the calling context's, and the execution of nodes refuses beyond a constant bound of that counter", 1)
	// types the engine stores into a context map
	exposed := map[*types.Named]bool{}
	for _, f := range p.inPkgFuncsSorted(p.allFuncSet()) {
		for _, b := range f.Blocks {
			for _, in := range b.Instrs {
				mu, ok := in.(*ssa.MapUpdate)
				if !ok {
					continue
				}
				mi, ok := mu.Value.(*ssa.MakeInterface)
				if !ok {
					continue
				}
				T := mi.X.Type()
				if pt, isP := T.(*types.Pointer); isP {
					T = pt.Elem()
				}
				if n, isN := T.(*types.Named); isN && n.Obj().Pkg() == a.ExecCtx.Obj().Pkg() {
					exposed[n] = true
				}
			}
		}
	}
	ctxPtr := types.NewPointer(a.ExecCtx)
	execReach := a.ExecReach()
	n := 0
	for T := range exposed {
		_ = T
	}
	var names []*types.Named
	for T := range exposed {
		names = append(names, T)
	}
	sort.Slice(names, func(i, j int) bool { return names[i].Obj().Name() < names[j].Obj().Name() })
	for _, T := range names {
		for _, m := range p.Methods(T) {
			if m.Object() == nil || !m.Object().Exported() || m.Blocks == nil {
				continue
			}
			ctxParam := paramOfType(m, ctxPtr)
			if ctxParam == nil {
				continue
			}
			// executes nodes: a call (in the method) that hands on an ExecutionContext other than its own
			var nested []ssa.Value
			var site ssa.Instruction
			for _, b := range m.Blocks {
				for _, in := range b.Instrs {
					ci, ok := in.(ssa.CallInstruction)
					if !ok {
						continue
					}
					name := ""
					if ci.Common().IsInvoke() {
						name = ci.Common().Method.Name()
					} else if c := ci.Common().StaticCallee(); c != nil {
						name = c.Name()
					}
					if !strings.HasPrefix(name, "Execute") && !strings.HasPrefix(name, "execute") {
						continue
					}
					for _, arg := range callArgs(ci.Common()) {
						if types.Identical(arg.Type(), ctxPtr) {
							nested = append(nested, arg)
							site = in
						}
					}
				}
			}
			if len(nested) == 0 {
				continue
			}
			n++
			key := p.FuncName(m) + ":counts-a-level"
			// the method counts the level itself — on a counter of the rendering that it steps and compares with a
			// constant, refusing with an error — before it executes anything
			if site != nil && behindDepthStep(p, site) {
				r.OK(key, p.InstrPos(site), "the nested execution stands behind a depth step of the method itself (a counter stepped here, compared with a constant, refusing with an error)")
				continue
			}
			// the counter: an int field of the nested context stored as <calling context>.field + k
			counted := -1
			for _, nv := range nested {
				if nv == ssa.Value(ctxParam) {
					continue
				}
				for _, b := range m.Blocks {
					for _, in := range b.Instrs {
						st, ok := in.(*ssa.Store)
						if !ok {
							continue
						}
						fa, ok := st.Addr.(*ssa.FieldAddr)
						if !ok || p.VN(fa.X) != p.VN(nv) {
							continue
						}
						add, ok := st.Val.(*ssa.BinOp)
						if !ok || add.Op != token.ADD {
							continue
						}
						if k, isK := constInt(add.Y); !isK || k <= 0 {
							continue
						}
						if u, ok := add.X.(*ssa.UnOp); ok && u.Op == token.MUL {
							if fb, ok := u.X.(*ssa.FieldAddr); ok && fb.Field == fa.Field && unspillParam(fb.X) == ssa.Value(ctxParam) {
								counted = fa.Field
							}
						}
					}
				}
			}
			if counted < 0 {
				same := false
				for _, nv := range nested {
					if nv == ssa.Value(ctxParam) {
						same = true
					}
				}
				if same {
					r.Assume(key, p.InstrPos(site), "the method executes in the calling context itself; the rule cannot see a counter")
				} else {
					r.Bad(key, p.InstrPos(site), "%s executes nodes in a new context without counting a level of nesting (no `<new>.counter = <calling>.counter + k`): definitions that reach each other through it ({%% block a %%}…{{ block.Super }}… in a cycle with another block) recurse until the stack is exhausted, which ends the process", p.FuncName(m))
				}
				continue
			}
			r.OK(key, p.InstrPos(site), "the context of the nested execution carries %s one higher than the calling context", fieldName(ctxPtr, counted))
			// … and that counter is bounded where nodes are executed
			key = p.FuncName(m) + ":bounded"
			bounded := ""
			for _, f := range p.inPkgFuncsSorted(execReach) {
				if bounded != "" || errorResultIndex(f) < 0 {
					continue
				}
				for _, b := range f.Blocks {
					iff, ok := b.Instrs[len(b.Instrs)-1].(*ssa.If)
					if !ok {
						continue
					}
					c, pol := normCond(iff.Cond, true)
					bo, ok := c.(*ssa.BinOp)
					if !ok || (bo.Op != token.GTR && bo.Op != token.GEQ) {
						continue
					}
					if _, isK := constInt(bo.Y); !isK {
						continue
					}
					u, ok := bo.X.(*ssa.UnOp)
					if !ok || u.Op != token.MUL {
						continue
					}
					fa, ok := u.X.(*ssa.FieldAddr)
					if !ok || fa.Field != counted || !types.Identical(fa.X.Type(), ctxPtr) {
						continue
					}
					// … in a node's Execute (a function every cycle through nodes passes), refusing with an error
					if !strings.HasPrefix(f.Name(), "Execute") {
						continue
					}
					idx := 0
					if !pol {
						idx = 1
					}
					if errorReturnsOnly(f, b.Succs[idx]) {
						bounded = p.FuncName(f)
					}
				}
			}
			if bounded != "" {
				r.OK(key, p.Pos(m.Pos()), "%s refuses beyond a constant bound of that counter", bounded)
			} else {
				r.Bad(key, p.Pos(m.Pos()), "no Execute method compares ExecutionContext.%s with a constant and refuses with an error: the level %s counts is never checked", fieldName(ctxPtr, counted), p.FuncName(m))
			}
		}
	}
	if n == 0 {
		r.Trivial("none", "-", "no method of a type the engine stores into a context executes nodes")
	}
}

// defersRecover: f registers, in its entry block, a deferred closure that calls recover(): a panic raised while f runs
// does not leave f.
func defersRecover(f *ssa.Function) bool {
	if f == nil || len(f.Blocks) == 0 {
		return false
	}
	for _, in := range f.Blocks[0].Instrs {
		d, ok := in.(*ssa.Defer)
		if !ok {
			continue
		}
		var cl *ssa.Function
		switch v := d.Call.Value.(type) {
		case *ssa.MakeClosure:
			cl, _ = v.Fn.(*ssa.Function)
		case *ssa.Function:
			cl = v
		}
		if cl == nil {
			continue
		}
		for _, cb := range cl.Blocks {
			for _, ci := range cb.Instrs {
				if c, isC := ci.(*ssa.Call); isC {
					if bi, isB := c.Common().Value.(*ssa.Builtin); isB && bi.Name() == "recover" {
						return true
					}
				}
			}
		}
	}
	return false
}

// R-C01-USERMETHOD. A value of the context can be a fmt.Stringer or an error whose method panics (a struct embedding
// a nil *time.Time IS a Stringer; its promoted method dereferences the nil). Where the engine calls such a method
// directly — an interface method call on a value it type-asserted out of caller data, not through reflect Call, which
// R-C08-CALL covers — the call has to run under a deferred recover, or {{ x }} ends the rendering with a panic.
func ruleC01UserMethods(p *Prog, a *Anchors, r *Report) {
	r.Begin("R-C01-USERMETHOD", "every direct call of a method of caller data (String() of a value asserted to fmt.Stringer, Error() of one asserted to error) reachable from execution stands in a function that defers a recover", 1)
	reach := a.ExecReach()
	count := map[string]int{}
	n := 0
	for _, f := range p.inPkgFuncsSorted(p.allFuncSet()) {
		if !reach[f] && !reach[topLevel(f)] {
			continue
		}
		for _, b := range f.Blocks {
			for _, in := range b.Instrs {
				c, ok := in.(*ssa.Call)
				if !ok {
					continue
				}
				// errors.As / errors.Is / errors.Unwrap walk the chain of an error by calling ITS Unwrap, As and Is
				// methods: caller code when the error is one a context function returned
				if g := c.Common().StaticCallee(); g != nil && !c.Common().IsInvoke() {
					nm := p.extName(g)
					if (nm == "errors.As" || nm == "errors.Is" || nm == "errors.Unwrap") && len(c.Common().Args) > 0 {
						v := c.Common().Args[0]
						if up := unspillParam(v); up != nil {
							v = up
						}
						if ex, isEx := v.(*ssa.Extract); isEx {
							v = ex.Tuple
						}
						may := false
						switch x := v.(type) {
						case *ssa.Call:
							may = c01MayBeCallersError(p, x, 0)
						case *ssa.Parameter:
							for _, s := range paramActualSites(p, x) {
								sv := s.val
								if ex, isEx := sv.(*ssa.Extract); isEx {
									sv = ex.Tuple
								}
								if cc, isC := sv.(*ssa.Call); isC && c01MayBeCallersError(p, cc, 0) {
									may = true
								}
							}
						}
						if may {
							n++
							key := p.FuncName(f) + ":" + nm + "()"
							count[key]++
							if count[key] > 1 {
								key += "#" + itoa(int64(count[key]))
							}
							if defersRecover(f) {
								r.OK(key, p.InstrPos(in), "called under a deferred recover")
							} else {
								r.Bad(key, p.InstrPos(in), "%s walks the chain of an error that may be the one a context function returned, calling its Unwrap/As/Is methods — caller code — without a deferred recover in %s: a method that panics (an error type with a nil optional cause, a struct embedding a nil *os.PathError) ends the rendering with a panic instead of an error", nm, p.FuncName(f))
							}
						}
					}
					continue
				}
				if !c.Common().IsInvoke() {
					continue
				}
				m := c.Common().Method
				if m.Name() != "String" && m.Name() != "Error" {
					continue
				}
				// the receiver was asserted out of an interface{} (caller data), not an engine type
				recv := c.Common().Value
				if ex, isEx := recv.(*ssa.Extract); isEx {
					recv = ex.Tuple
				}
				if up := unspillParam(recv); up != nil {
					recv = up
				}
				switch rv := recv.(type) {
				case *ssa.Call:
					// Error() of the error a package function handed back: a context function's own error value
					// travels through the resolver as it is (resolve → Evaluate), so its Error method is caller code
					if m.Name() != "Error" || !c01MayBeCallersError(p, rv, 0) {
						continue
					}
				case *ssa.TypeAssert:
					if it, isI := rv.X.Type().Underlying().(*types.Interface); !isI || it.NumMethods() != 0 {
						continue
					}
				case *ssa.Parameter:
					// a helper that is handed the value: Error() on an `error` parameter for which some caller passes
					// an error that may be the caller's own …
					if m.Name() == "Error" && types.Identical(rv.Type(), types.Universe.Lookup("error").Type()) {
						may := false
						for _, s := range paramActualSites(p, rv) {
							v := s.val
							if ex, isEx := v.(*ssa.Extract); isEx {
								v = ex.Tuple
							}
							if cc, isC := v.(*ssa.Call); isC && c01MayBeCallersError(p, cc, 0) {
								may = true
							}
						}
						if !may {
							continue
						}
						break
					}
					// … String() on a parameter of an interface type declared outside the package (fmt.Stringer)
					nt, isN := rv.Type().(*types.Named)
					if !isN || m.Name() != "String" || nt.Obj().Pkg() == nil || nt.Obj().Pkg() == a.ExecCtx.Obj().Pkg() {
						continue
					}
				default:
					continue
				}
				n++
				key := p.FuncName(f) + ":" + m.Name() + "()"
				count[key]++
				if count[key] > 1 {
					key += "#" + itoa(int64(count[key]))
				}
				if defersRecover(f) {
					r.OK(key, p.InstrPos(in), "called under a deferred recover")
				} else {
					r.Bad(key, p.InstrPos(in), "%s() of a value taken from caller data is called without a deferred recover in %s: a method that panics (a struct embedding a nil *time.Time is a Stringer whose String dereferences the nil) ends the rendering with a panic instead of an error or an empty text", m.Name(), p.FuncName(f))
				}
			}
		}
	}
	if n == 0 {
		r.Trivial("none", "-", "no direct String()/Error() call on asserted caller data reachable from execution")
	}
}

// R-C01-BUDGET. Two kinds of bounds multiply on the stack: the nested executions of a rendering (macro calls, block.Super
// calls, templates executed by include/ssi) may be E deep in total, and every one of them puts the nesting of what it
// executes — at most N counted levels of tags and expressions — in between. A stack overflow ends the process and
// cannot be recovered from, so N·E has to stay below what the stack holds. The rule reads the constants off the depth
// steps and decides the arithmetic:
//   - N: compile-time counters (fields of the parser / the template under construction) that a refusing comparison
//     bounds. A comparison of a SUM of counters bounds them together (once); counters bounded separately add up.
//   - E: execution-time counters; each is a stack of its own kind, so their bounds add up (a counter that several
//     comparisons bound counts once, with the largest constant).
// The bytes per level are an estimate, stated here and not derived: up to about 1.3 KB (a subscript or call-argument
// level is variableResolver.resolve + Evaluate + nodeFilteredVariable.Evaluate = 1264 bytes of frames, measured at
// 1300 per level by running out of a 64 MB stack; a for level costs 0.9 KB). Go's stack limit of 10⁹ bytes is in effect
// 2²⁹ (stacks grow by doubling, and 2³⁰ exceeds the limit): 2²⁹ / 1310 ≈ 409 000 levels fit.
const stackBudgetLevels = 409000

func ruleC01Budget(p *Prog, a *Anchors, r *Report) {
	r.Begin("R-C01-BUDGET", "the nesting one execution can put on the stack (compile-time bounds, added where counted separately) times the nested executions of a rendering (execution-time bounds, added up) stays within the stack of the platform: N·E ≤ 4.09·10⁵ counted levels on 64-bit, 1.9·10⁵ on 32-bit platforms (the tree is loaded a second time with GOARCH=386)", 1)
	c01BudgetOn(p, a, r, "nesting × recursion")
	if p.Pkg != nil && p.Pkg.TypesSizes != nil && p.Pkg.TypesSizes.Sizeof(types.Typ[types.Uintptr]) == 8 {
		// the same tree as a 32-bit build sees it (constants may depend on the word size, files on build constraints)
		o := p.Opts
		o.Env = append(append([]string{}, o.Env...), "GOARCH=386")
		p32, err := Load(o)
		if err != nil {
			r.Assume("nesting × recursion:32-bit", "-", "the tree does not load for GOARCH=386 (%v): nothing is claimed for 32-bit platforms", err)
			return
		}
		a32 := ResolveAnchors(p32)
		if a32 == nil || a32.ExecCtx == nil {
			r.Assume("nesting × recursion:32-bit", "-", "the anchors do not resolve on the GOARCH=386 tree: nothing is claimed for 32-bit platforms")
			return
		}
		c01BudgetOn(p32, a32, r, "nesting × recursion:32-bit")
	}
}

func c01BudgetOn(p *Prog, a *Anchors, r *Report, key string) {
	creach := a.CompileReach()
	type group struct {
		fields []string
		k      int64
		at     string
	}
	var groups []group
	fieldName2 := func(v ssa.Value) string {
		u, ok := v.(*ssa.UnOp)
		if !ok || u.Op != token.MUL || !isIntType(u.Type()) {
			return ""
		}
		fa, ok := u.X.(*ssa.FieldAddr)
		if !ok {
			return ""
		}
		n := structOf(fa.X.Type())
		if n == nil || (n.Obj().Name() != "Parser" && n.Obj().Name() != "Template") {
			return ""
		}
		return n.Obj().Name() + "." + fieldName(fa.X.Type(), fa.Field)
	}
	for _, f := range p.inPkgFuncsSorted(p.allFuncSet()) {
		if errorResultIndex(f) < 0 || !creach[f] {
			continue
		}
		for _, b := range f.Blocks {
			iff, ok := b.Instrs[len(b.Instrs)-1].(*ssa.If)
			if !ok {
				continue
			}
			c, _ := normCond(iff.Cond, true)
			if !refusingCompare(p, f, c) {
				continue
			}
			bo := c.(*ssa.BinOp)
			if c01ReadsMark(p, bo.X) {
				// (the comparison of a high-water mark refuses trees that are too high where a node is put on top; it is
				// not passed at every step of the counter and bounds nothing beside what the counter's own step bounds)
				continue
			}
			k, _ := constInt(bo.Y)
			var fields []string
			var collect func(v ssa.Value)
			collect = func(v ssa.Value) {
				if n := fieldName2(v); n != "" {
					fields = append(fields, n)
					return
				}
				if add, ok := v.(*ssa.BinOp); ok && add.Op == token.ADD {
					collect(add.X)
					collect(add.Y)
				}
			}
			collect(bo.X)
			if len(fields) > 0 {
				groups = append(groups, group{fields, k, p.FuncName(f)})
			}
		}
	}
	// N: widest groups first; a field is counted with the first group that covers it
	sort.SliceStable(groups, func(i, j int) bool { return len(groups[i].fields) > len(groups[j].fields) })
	covered := map[string]bool{}
	var nLevels int64
	var nParts []string
	for _, g := range groups {
		fresh := false
		for _, f := range g.fields {
			if !covered[f] {
				fresh = true
			}
		}
		if !fresh {
			continue
		}
		for _, f := range g.fields {
			covered[f] = true
		}
		nLevels += g.k
		nParts = append(nParts, strings.Join(g.fields, "+")+" ≤ "+itoa(g.k)+" ("+g.at+")")
	}
	// E
	var eLevels int64
	var eParts []string
	for _, c := range c01ExecCounters(p, a) {
		eLevels += c.bound
		eParts = append(eParts, c.name+" ≤ "+itoa(c.bound)+" ("+c.at+")")
	}
	// … and a depth handed on as a parameter (execute(…, depth)) that is compared with a constant
	for _, f := range p.inPkgFuncsSorted(a.ExecReach()) {
		if errorResultIndex(f) < 0 || creach[f] {
			continue // (loading at execution time — a computed include — is compile-time nesting, bounded on its own)
		}
		for _, b := range f.Blocks {
			iff, ok := b.Instrs[len(b.Instrs)-1].(*ssa.If)
			if !ok {
				continue
			}
			c, _ := normCond(iff.Cond, true)
			bo, ok := c.(*ssa.BinOp)
			if !ok {
				continue
			}
			if pa, isP := stripLoad(bo.X).(*ssa.Parameter); isP && refusingCompare(p, f, c) {
				k, _ := constInt(bo.Y)
				eLevels += k
				eParts = append(eParts, "parameter "+pa.Name()+" ≤ "+itoa(k)+" ("+p.FuncName(f)+")")
			}
		}
	}
	sort.Strings(eParts)
	// the budget of the platform the tree is built for: 64-bit Go stacks end at 10⁹ bytes (in effect 2²⁹), 32-bit ones
	// at 2.5·10⁸ (in effect 2²⁷), where a level costs about 0.7 KB (measured: 692 bytes for a subscript level on 386)
	budget, budgetWhy := int64(stackBudgetLevels), "64-bit: in effect 512 MB at up to 1.3 KB per level"
	if p.Pkg != nil && p.Pkg.TypesSizes != nil && p.Pkg.TypesSizes.Sizeof(types.Typ[types.Uintptr]) == 4 {
		budget, budgetWhy = (1<<27)/700, "32-bit: in effect 128 MB at up to 0.7 KB per level"
	}
	desc := "N = " + strings.Join(nParts, " + ") + "; E = " + strings.Join(eParts, " + ")
	switch {
	case nLevels == 0:
		r.Bad(key, "-", "no constant bound on the nesting of a source was found (a parser/template counter compared with a constant, refusing with an error): one activation of a macro can put arbitrarily many frames on the stack")
	case eLevels == 0:
		r.Unk(key, "-", "no execution-time recursion bound was found")
	case nLevels*eLevels > budget:
		r.Bad(key, "-", "%s: %d·%d = %d counted levels can be on the stack at once, more than the %d that fit Go's stack on this platform (%s) — a macro whose body nests its recursive call deeply exhausts the stack before a depth error is reached, which ends the process", desc, nLevels, eLevels, nLevels*eLevels, budget, budgetWhy)
	default:
		r.OK(key, "-", "%s: %d·%d = %d ≤ %d counted levels (%s)", desc, nLevels, eLevels, nLevels*eLevels, budget, budgetWhy)
	}
}

// R-C01-COUNTERS. The recursion bounds of an execution (macro depth, template depth) live in the ExecutionContext. Tags
// derive contexts from contexts (for, with, macro bodies, Super …): a derived context that starts a counter at zero
// gives everything that runs in it a fresh allowance — a macro defined inside a macro body recursed 1000 × 1000 deep.
// Every function that builds an ExecutionContext out of another one has to carry each integer counter over.
func ruleC01Counters(p *Prog, a *Anchors, r *Report) {
	r.Begin("R-C01-COUNTERS", "every function that derives an ExecutionContext from another one (takes a context, returns a freshly allocated one) stores each integer counter field of the new context from the same field of the context it was given", 1)
	ctxPtr := types.NewPointer(a.ExecCtx)
	st := a.ExecCtx.Underlying().(*types.Struct)
	var counters []int
	for i := 0; i < st.NumFields(); i++ {
		if b, ok := st.Field(i).Type().Underlying().(*types.Basic); ok && b.Info()&types.IsInteger != 0 {
			counters = append(counters, i)
		}
	}
	// … and the pointer to a record that holds counters for the whole rendering: the derived context refers to the
	// same record
	recIdx := -1
	if rec := c01RenderingRecord(p, a); rec != nil {
		for i := 0; i < st.NumFields(); i++ {
			if pt, ok := st.Field(i).Type().(*types.Pointer); ok && types.Identical(pt.Elem(), rec) {
				recIdx = i
			}
		}
	}
	n := 0
	for _, f := range p.inPkgFuncsSorted(p.allFuncSet()) {
		if f.Parent() != nil || f.Signature.Results().Len() != 1 || !types.Identical(f.Signature.Results().At(0).Type(), ctxPtr) {
			continue
		}
		parent := paramOfType(f, ctxPtr)
		if parent == nil {
			continue
		}
		// returns a context it allocates
		var fresh *ssa.Alloc
		for _, ret := range returnsOf(f) {
			if al, ok := stripLoad(ret.Results[0]).(*ssa.Alloc); ok {
				fresh = al
			}
		}
		if fresh == nil {
			continue
		}
		if recIdx >= 0 {
			n++
			key := p.FuncName(f) + ":carries " + st.Field(recIdx).Name()
			var sharesIn func(fn *ssa.Function, dst, src ssa.Value, depth int) bool
			sharesIn = func(fn *ssa.Function, dst, src ssa.Value, depth int) bool {
				for _, b := range fn.Blocks {
					for _, in := range b.Instrs {
						switch x := in.(type) {
						case *ssa.Store:
							fa, ok := x.Addr.(*ssa.FieldAddr)
							if !ok || fa.Field != recIdx || unspillParam(stripLoad(fa.X)) != dst {
								continue
							}
							if c01RecordOf(p, x.Val, src, recIdx) {
								return true
							}
						case *ssa.Call:
							// a helper that is handed both contexts (child.inheritRendering(parent))
							callee := x.Common().StaticCallee()
							if callee == nil || !p.InPkg(callee) || callee.Blocks == nil || depth > 1 {
								continue
							}
							var pd, ps ssa.Value
							for i, arg := range callArgs(x.Common()) {
								if i >= len(callee.Params) {
									break
								}
								switch unspillParam(stripLoad(arg)) {
								case dst:
									pd = callee.Params[i]
								case src:
									ps = callee.Params[i]
								}
							}
							if pd != nil && ps != nil && sharesIn(callee, pd, ps, depth+1) {
								return true
							}
						}
					}
				}
				return false
			}
			shared := sharesIn(f, fresh, parent, 0)
			if shared {
				r.OK(key, p.Pos(f.Pos()), "the derived context refers to the counters of the rendering it belongs to")
			} else {
				r.Bad(key, p.Pos(f.Pos()), "%s builds a context from another one without handing on ExecutionContext.%s: what runs in the derived context counts its nesting on a record of its own, so the recursion bounds no longer bound the stack", p.FuncName(f), st.Field(recIdx).Name())
			}
		}
		for _, ci := range counters {
			n++
			key := p.FuncName(f) + ":carries " + st.Field(ci).Name()
			// stores dst.field = src.field (+k) in fn, where dst/src are given as values of fn
			var carriesIn func(fn *ssa.Function, dst, src ssa.Value, depth int) bool
			carriesIn = func(fn *ssa.Function, dst, src ssa.Value, depth int) bool {
				for _, b := range fn.Blocks {
					for _, in := range b.Instrs {
						switch x := in.(type) {
						case *ssa.Store:
							fa, ok := x.Addr.(*ssa.FieldAddr)
							if !ok || fa.Field != ci || unspillParam(stripLoad(fa.X)) != dst {
								continue
							}
							v := x.Val
							if bo, isBo := v.(*ssa.BinOp); isBo && bo.Op == token.ADD {
								v = bo.X
							}
							if u, isU := v.(*ssa.UnOp); isU && u.Op == token.MUL {
								if fb, isF := u.X.(*ssa.FieldAddr); isF && fb.Field == ci && unspillParam(stripLoad(fb.X)) == src {
									return true
								}
							}
						case *ssa.Call:
							// a helper that is handed both contexts (child.inheritCounters(parent))
							callee := x.Common().StaticCallee()
							if callee == nil || !p.InPkg(callee) || callee.Blocks == nil || depth > 1 {
								continue
							}
							var pd, ps ssa.Value
							for i, arg := range callArgs(x.Common()) {
								if i >= len(callee.Params) {
									break
								}
								switch unspillParam(stripLoad(arg)) {
								case dst:
									pd = callee.Params[i]
								case src:
									ps = callee.Params[i]
								}
							}
							if pd != nil && ps != nil && carriesIn(callee, pd, ps, depth+1) {
								return true
							}
						}
					}
				}
				return false
			}
			carried := carriesIn(f, fresh, parent, 0)
			if carried {
				r.OK(key, p.Pos(f.Pos()), "the derived context continues the counter of the context it comes from")
			} else {
				r.Bad(key, p.Pos(f.Pos()), "%s builds a context from another one without carrying over ExecutionContext.%s: what runs in the derived context (the body of a for/with, a macro defined inside a macro) counts from zero again, so the recursion bound no longer bounds the stack", p.FuncName(f), st.Field(ci).Name())
			}
		}
	}
	if n == 0 {
		r.Unk("none", "-", "no function derives an ExecutionContext from another one (or the context has no integer counter)")
	}
}

// R-C01-RUNEGUARD. len(s) of a string counts bytes, len([]rune(s)) characters, and bytes ≥ characters. A bound that
// was tested against the byte length says nothing about the rune slice: []rune(s)[:k] behind `len(s) > k` panics
// (slice bounds out of range) for multi-byte text whose character count is below k. Decided for every slice of a
// rune slice converted from a string, whose bound is not constant: some length test of the rune slice itself (or a
// character count: utf8.RuneCountInString) must guard it; a test of the string's byte length does not count.
func ruleC01RuneGuard(p *Prog, a *Anchors, r *Report) {
	r.Begin("R-C01-RUNEGUARD", "a rune slice converted from a string is sliced with a non-constant bound only behind a test of ITS length (characters), not merely of the string's byte length", 1)
	reach := a.ExecReach()
	n := 0
	count := map[string]int{}
	for _, f := range p.inPkgFuncsSorted(p.allFuncSet()) {
		if !reach[f] && !reach[topLevel(f)] {
			continue
		}
		for _, b := range f.Blocks {
			for _, in := range b.Instrs {
				sl, ok := in.(*ssa.Slice)
				if !ok || !isRuneSlice(sl.X.Type()) {
					continue
				}
				cv, ok := sl.X.(*ssa.Convert)
				if !ok || !isStringType(cv.X.Type()) {
					continue
				}
				var bounds []ssa.Value
				for _, bd := range []ssa.Value{sl.Low, sl.High} {
					if bd == nil {
						continue
					}
					if _, isK := constInt(bd); !isK {
						bounds = append(bounds, bd)
					}
				}
				if len(bounds) == 0 {
					continue
				}
				lenOf := func(v ssa.Value, of ssa.Value) bool {
					c, ok := v.(*ssa.Call)
					if !ok {
						return false
					}
					if bi, isB := c.Common().Value.(*ssa.Builtin); isB && bi.Name() == "len" {
						arg := c.Common().Args[0]
						return arg == of || p.VN(arg) == p.VN(of)
					}
					return false
				}
				charCount := func(v ssa.Value) bool {
					if lenOf(v, sl.X) {
						return true
					}
					if c, ok := v.(*ssa.Call); ok && c.Common().StaticCallee() != nil {
						nm := p.extName(c.Common().StaticCallee())
						if (nm == "unicode/utf8.RuneCountInString" || nm == "unicode/utf8.RuneCount") && len(c.Common().Args) == 1 {
							return true
						}
					}
					return false
				}
				runeGuard, byteGuard := false, false
				eachDominatingCond(in, func(cond ssa.Value, pol bool) bool {
					bo, ok := cond.(*ssa.BinOp)
					if !ok {
						return false
					}
					for _, side := range []ssa.Value{bo.X, bo.Y} {
						if charCount(side) {
							runeGuard = true
						}
						if lenOf(side, cv.X) {
							byteGuard = true
						}
					}
					return false
				})
				n++
				key := p.FuncName(f) + ":[]rune slice"
				count[key]++
				if count[key] > 1 {
					key += "#" + itoa(int64(count[key]))
				}
				switch {
				case runeGuard:
					r.OK(key, p.InstrPos(in), "guarded by a test of the rune slice's own length")
				case byteGuard:
					r.Bad(key, p.InstrPos(in), "[]rune(%s) is sliced with %s behind a test of len(%s) only — the byte length, which is larger than the character count for multi-byte text: the slice expression panics (bounds out of range) for such input", p.VN(cv.X), p.VN(bounds[0]), p.VN(cv.X))
				default:
					r.Assume(key, p.InstrPos(in), "no length test of either representation dominates the slice; the bound is assumed to be derived from the rune slice")
				}
			}
		}
	}
	if n == 0 {
		r.Trivial("none", "-", "no rune slice converted from a string is sliced with a non-constant bound")
	}
}

// R-C01-REWRAP ("within bounded time"). An error that passes a level of a recursion must not be rendered to text and
// wrapped again at that level: `ctx.Error(err.Error(), token)` copies the whole message once per level, which is
// quadratic in the depth — a recursion of macros that ends in the depth error took minutes for a 300-byte template.
// Where execution code turns an `error` into a new execution error by its text, it has to hand on, unwrapped, an error
// that is already an execution error with a position (a type test for *Error on the way).
func ruleC01Rewrap(p *Prog, a *Anchors, r *Report) {
	r.Begin("R-C01-REWRAP", "execution code that builds an execution error from the text of an `error` value does so only for values that are not already positioned execution errors (a *Error type test stands before it): an error is not re-rendered at every level of a recursion it passes", 1)
	reach := a.ExecReach()
	errT := types.Universe.Lookup("error").Type()
	n := 0
	count := map[string]int{}
	for _, f := range p.inPkgFuncsSorted(p.allFuncSet()) {
		if !reach[f] {
			continue
		}
		for _, b := range f.Blocks {
			for _, in := range b.Instrs {
				c, ok := in.(*ssa.Call)
				if !ok {
					continue
				}
				var ev ssa.Value
				evCell := ""
				switch {
				case !c.Common().IsInvoke() && isMakeClosure(c.Common().Value):
					// a closure called where it is made (`text := func() string { defer …recover…; return err.Error() }()`)
					mc := c.Common().Value.(*ssa.MakeClosure)
					cf := mc.Fn.(*ssa.Function)
					for _, cb := range cf.Blocks {
						for _, ci := range cb.Instrs {
							ic, isC := ci.(*ssa.Call)
							if !isC || !ic.Common().IsInvoke() || ic.Common().Method.Name() != "Error" || !types.Identical(ic.Common().Value.Type(), errT) {
								continue
							}
							if u, isU := ic.Common().Value.(*ssa.UnOp); isU {
								if fv, isFV := u.X.(*ssa.FreeVar); isFV {
									for i, x := range cf.FreeVars {
										if x == fv && i < len(mc.Bindings) {
											evCell = cellOf2(mc.Bindings[i])
										}
									}
								}
							}
						}
					}
					if evCell == "" {
						continue
					}
				case c.Common().IsInvoke() && c.Common().Method.Name() == "Error" && types.Identical(c.Common().Value.Type(), errT):
					ev = c.Common().Value
				case c.Common().StaticCallee() != nil && c01ErrorTextHelper(p, c.Common().StaticCallee()) >= 0:
					// a helper of the package that hands back err.Error() of its parameter (under a recover, say)
					ev = c.Common().Args[c01ErrorTextHelper(p, c.Common().StaticCallee())]
				default:
					continue
				}
				// the text becomes the message of a new execution error
				wrapped := false
				for _, ref := range *c.Referrers() {
					cc, isCall := ref.(*ssa.Call)
					if !isCall || cc.Common().StaticCallee() == nil {
						continue
					}
					callee := cc.Common().StaticCallee()
					if recv := callee.Signature.Recv(); recv != nil && structOf(recv.Type()) == a.ExecCtx && errorResultIndex(callee) >= 0 {
						wrapped = true
					}
				}
				if !wrapped {
					continue
				}
				n++
				key := p.FuncName(f) + ":wraps-error-text"
				count[key]++
				if count[key] > 1 {
					key += "#" + itoa(int64(count[key]))
				}
				tested := Guarded(in, func(cond ssa.Value, pol bool) bool {
					// `inner, ok := err.(*Error)`: the not-ok edge, or a test of a field of inner on its failing edge
					isAssertOf := func(v ssa.Value) bool {
						if ex, isEx := v.(*ssa.Extract); isEx {
							v = ex.Tuple
						}
						ta, isTA := v.(*ssa.TypeAssert)
						if !isTA || !(ta.X == ev || (evCell != "" && cellOf(ta.X) == evCell) || (ev != nil && cellOf(ev) != "" && cellOf(ev) == cellOf(ta.X))) {
							return false
						}
						pt, isP := ta.AssertedType.(*types.Pointer)
						return isP && types.Identical(pt.Elem(), a.Error)
					}
					if ex, isEx := cond.(*ssa.Extract); isEx && ex.Index == 1 && !pol && isAssertOf(ex) {
						return true
					}
					if bo, isBo := cond.(*ssa.BinOp); isBo {
						// "it has no position": inner.Line > 0 (or != 0) on its false edge, == 0 on its true edge
						if u, isU := bo.X.(*ssa.UnOp); isU {
							if fa, isFA := u.X.(*ssa.FieldAddr); isFA && isAssertOf(fa.X) && fieldName(fa.X.Type(), fa.Field) == "Line" {
								if k, isK := constInt(bo.Y); isK && k == 0 {
									switch bo.Op {
									case token.GTR, token.NEQ:
										return !pol
									case token.EQL, token.LEQ:
										return pol
									}
								}
							}
						}
					}
					// … or the asserted pointer is nil (a typed nil in the error: nothing to hand on)
					if x, eq, isNil := condIsNilTest(cond); isNil && eq == pol && isAssertOf(x) {
						return true
					}
					return false
				})
				if tested {
					r.OK(key, p.InstrPos(in), "only an error that is not already a positioned execution error is turned into one by its text")
				} else {
					r.Bad(key, p.InstrPos(in), "%s renders an error to text and wraps it in a new execution error without asking whether it already is one: the error of a nested macro call is copied once per level it passes, quadratic in the depth (a 300-byte template whose macro recursion ends in the depth error takes minutes to return)", p.FuncName(f))
				}
			}
		}
	}
	if n == 0 {
		r.Trivial("none", "-", "execution code builds no execution error from the text of an error value")
	}
}

// R-C01-COUNTERWRITE: the nesting bounds hold only if the counters behind them are written by nobody but the counting
// itself. Every store to a field that a refusing comparison reads (template.level, Parser.depth, the depth fields of
// the execution context …) is therefore a step (the field ± something), a hand-over of the same field's value from
// another object (a child context, a saved value put back), a counted parameter, or the initialisation of an object
// made in the same function. A store of anything else — `level = 1` around the body of a macro — restarts the count:
// the recursion the counter bounds becomes unbounded again.
func ruleC01CounterWrites(p *Prog, a *Anchors, r *Report) {
	r.Begin("R-C01-COUNTERWRITE", "a field read by a refusing depth comparison is stored only by steps of itself, copies of the same field, counted parameters or the initialisation of a fresh object: nothing restarts the count", 4)
	type fkey struct {
		T   string
		idx int
	}
	counters := map[fkey]string{}
	fieldOf := func(v ssa.Value) (*ssa.FieldAddr, bool) {
		if u, ok := v.(*ssa.UnOp); ok && u.Op == token.MUL {
			fa, ok := u.X.(*ssa.FieldAddr)
			return fa, ok
		}
		return nil, false
	}
	keyOf := func(fa *ssa.FieldAddr) (fkey, string, bool) {
		n := structOf(fa.X.Type())
		if n == nil {
			return fkey{}, "", false
		}
		st, ok := n.Underlying().(*types.Struct)
		if !ok || fa.Field >= st.NumFields() {
			return fkey{}, "", false
		}
		return fkey{n.Obj().Name(), fa.Field}, n.Obj().Name() + "." + st.Field(fa.Field).Name(), true
	}
	for _, f := range p.inPkgFuncsSorted(p.allFuncSet()) {
		for _, b := range f.Blocks {
			iff, ok := b.Instrs[len(b.Instrs)-1].(*ssa.If)
			if !ok {
				continue
			}
			c, pol := normCond(iff.Cond, true)
			bo, isBo := c.(*ssa.BinOp)
			if !isBo {
				continue
			}
			if !refusingCompare(p, f, c) {
				// … or an int field compared with a constant whose "beyond" edge only returns errors (the field is
				// stepped elsewhere: superDepth in Super, compared in the block tag)
				_, isK := constInt(bo.Y)
				_, isF := fieldOf(bo.X)
				idx := 0
				if !pol {
					idx = 1
				}
				if !isK || !isF || (bo.Op != token.GTR && bo.Op != token.GEQ) || !errorReturnsOnly(f, b.Succs[idx]) {
					continue
				}
				if fa, _ := fieldOf(bo.X); !steppedSomewhere(p, fa) {
					continue
				}
			}
			for _, side := range []ssa.Value{bo.X, bo.Y} {
				if add, ok := side.(*ssa.BinOp); ok && add.Op == token.ADD {
					side = add.X
				}
				if fa, ok := fieldOf(side); ok {
					if k, name, ok := keyOf(fa); ok {
						counters[k] = name
					}
				}
			}
		}
	}
	if len(counters) == 0 {
		r.Unk("none", "-", "no counter field read by a refusing comparison found")
		return
	}
	// a counter handed on as a parameter is stored somewhere as well (ctx.depth = depth): the fields such a parameter is
	// stored into are counters, too
	n := 0
	for _, f := range p.inPkgFuncsSorted(p.allFuncSet()) {
		for _, b := range f.Blocks {
			for _, in := range b.Instrs {
				st, ok := in.(*ssa.Store)
				if !ok {
					continue
				}
				fa, ok := st.Addr.(*ssa.FieldAddr)
				if !ok {
					continue
				}
				k, name, ok := keyOf(fa)
				if !ok || counters[k] == "" {
					continue
				}
				n++
				key := p.FuncName(topLevel(f)) + ":" + name
				same := func(v ssa.Value) bool {
					fb, ok := fieldOf(v)
					if !ok {
						return false
					}
					k2, _, ok := keyOf(fb)
					return ok && k2 == k
				}
				var okVal func(v ssa.Value, d int) string
				okVal = func(v ssa.Value, d int) string {
					if d > 6 {
						return ""
					}
					switch x := v.(type) {
					case *ssa.BinOp:
						if (x.Op == token.ADD || x.Op == token.SUB) && (same(x.X) || okVal(x.X, d+1) != "") {
							return "a step of the counter"
						}
					case *ssa.UnOp:
						if same(x) {
							return "the same counter of another object (or its own earlier value)"
						}
						if m := c01MarkOf(p, fa); m != nil {
							if va, vn, ok := c01FieldLoad(x); ok && vn.Obj().Name() == m.T && va.Field == m.ofIdx {
								return "the counter it is the high-water mark of (raised to it, or started at it for an operand: R-C01-HEIGHT decides that the earlier mark is handed back)"
							}
						}
						if sv := stripLoad(x); sv != ssa.Value(x) {
							return okVal(sv, d+1)
						}
						// a captured local that holds an earlier value of the counter
						if cell := cellOf(x); cell != "" {
							all := true
							var stores []ssa.Value
							switch ad := x.X.(type) {
							case *ssa.Alloc:
								stores = allStoresTo(ad)
							case *ssa.FreeVar:
								stores = freeVarStores(ad)
							}
							if len(stores) == 0 {
								all = false
							}
							for _, sv := range stores {
								if okVal(sv, d+1) == "" {
									all = false
								}
							}
							if all {
								return "a saved value of the counter"
							}
						}
					case *ssa.Parameter:
						if isCounter(p, x.Parent(), x) {
							return "a counted parameter"
						}
					case *ssa.Phi:
						for _, e := range x.Edges {
							if okVal(e, d+1) == "" {
								return ""
							}
						}
						return "counter values"
					case *ssa.Const:
						if len(p.directAllocs(fa.X, 0)) > 0 {
							return "the initial value of an object made here"
						}
					}
					return ""
				}
				why := okVal(st.Val, 0)
				if m := c01MarkOf(p, fa); why == "" && m != nil && c01RaisesOnly(b, st, *m) {
					why = "a value the mark was found to be below (the mark is only ever raised here)"
				}
				if why == "" && len(p.directAllocs(fa.X, 0)) > 0 {
					// initialising a fresh object from something that is not a counter: judged by the bound rules
					if _, isK := st.Val.(*ssa.Const); isK {
						why = "the initial value of an object made here"
					}
				}
				if why != "" {
					r.OK(key, p.InstrPos(in), "stores %s", why)
				} else {
					r.Bad(key, p.InstrPos(in), "%s, which a nesting bound compares with its constant, is set to %s: not a step of the counter and not a hand-over of it — the count starts again here, and the recursion it bounds (nested definitions, nested calls) is no longer bounded: a deep enough input exhausts the stack", name, p.VN(st.Val))
				}
			}
		}
	}
	if n == 0 {
		r.Unk("none", "-", "no store to a counter field found")
	}
}

// freeVarStores: what the enclosing function (and its closures) store to the variable a free variable stands for.
func freeVarStores(fv *ssa.FreeVar) []ssa.Value {
	fn := fv.Parent()
	idx := -1
	for i, v := range fn.FreeVars {
		if v == fv {
			idx = i
		}
	}
	parent := fn.Parent()
	if idx < 0 || parent == nil {
		return nil
	}
	for _, b := range parent.Blocks {
		for _, in := range b.Instrs {
			if mc, ok := in.(*ssa.MakeClosure); ok && mc.Fn == ssa.Value(fn) && idx < len(mc.Bindings) {
				switch ad := mc.Bindings[idx].(type) {
				case *ssa.Alloc:
					return allStoresTo(ad)
				case *ssa.FreeVar:
					return freeVarStores(ad)
				}
			}
		}
	}
	return nil
}

// steppedSomewhere: some function of the package stores <the same field> + k (k > 0) into the field fa denotes.
func steppedSomewhere(p *Prog, fa *ssa.FieldAddr) bool {
	n := structOf(fa.X.Type())
	if n == nil {
		return false
	}
	same := func(v ssa.Value) bool {
		u, ok := v.(*ssa.UnOp)
		if !ok || u.Op != token.MUL {
			return false
		}
		fb, ok := u.X.(*ssa.FieldAddr)
		return ok && fb.Field == fa.Field && structOf(fb.X.Type()) == n
	}
	for _, f := range p.Funcs {
		if !p.InPkg(f) {
			continue
		}
		for _, b := range f.Blocks {
			for _, in := range b.Instrs {
				st, ok := in.(*ssa.Store)
				if !ok {
					continue
				}
				fb, ok := st.Addr.(*ssa.FieldAddr)
				if !ok || fb.Field != fa.Field || structOf(fb.X.Type()) != n {
					continue
				}
				if add, ok := st.Val.(*ssa.BinOp); ok && add.Op == token.ADD && same(add.X) {
					if k, isK := constInt(add.Y); isK && k > 0 {
						return true
					}
				}
			}
		}
	}
	return false
}

// c01ExecCounters: the integer fields (holder type, field index) that execution-time code steps (x.f = x.f + k) and
// compares with a constant on an edge that only returns errors.
type c01Counter struct {
	holder *types.Named
	field  int
	name   string
	bound  int64
	at     string
}

func c01ExecCounters(p *Prog, a *Anchors) []c01Counter {
	var out []c01Counter
	seen := map[string]int{}
	ereach := a.ExecReach()
	for _, f := range p.inPkgFuncsSorted(ereach) {
		if errorResultIndex(f) < 0 {
			continue
		}
		for _, b := range f.Blocks {
			iff, ok := b.Instrs[len(b.Instrs)-1].(*ssa.If)
			if !ok {
				continue
			}
			c, pol := normCond(iff.Cond, true)
			bo, ok := c.(*ssa.BinOp)
			if !ok || (bo.Op != token.GTR && bo.Op != token.GEQ) {
				continue
			}
			k, isK := constInt(bo.Y)
			u, isU := bo.X.(*ssa.UnOp)
			if !isK || !isU || u.Op != token.MUL || !isIntType(u.Type()) {
				continue
			}
			fa, ok := u.X.(*ssa.FieldAddr)
			if !ok || !steppedSomewhere(p, fa) {
				continue
			}
			idx := 0
			if !pol {
				idx = 1
			}
			if !errorReturnsOnly(f, b.Succs[idx]) {
				continue
			}
			h := structOf(fa.X.Type())
			if h == nil {
				continue
			}
			name := h.Obj().Name() + "." + fieldName(fa.X.Type(), fa.Field)
			if i, dup := seen[name]; dup {
				if k > out[i].bound {
					out[i].bound, out[i].at = k, p.FuncName(f)
				}
				continue
			}
			seen[name] = len(out)
			out = append(out, c01Counter{h, fa.Field, name, k, p.FuncName(f)})
		}
	}
	// … and counters stepped and tested in an enter-helper (`enter(limit) (leave, within)`): the bound is what the
	// callers pass
	for _, g := range p.inPkgFuncsSorted(ereach) {
		bs, ok := boolDepthStep(p, g)
		if !ok {
			continue
		}
		h := structOf(bs.field.X.Type())
		if h == nil {
			continue
		}
		bound := bs.boundConst
		if bs.boundParam != nil {
			bound = 0
			for _, s := range paramActualSites(p, bs.boundParam) {
				if k, isK := constInt(s.val); isK && k > bound {
					bound = k
				}
			}
		}
		if bound <= 0 {
			continue
		}
		name := h.Obj().Name() + "." + fieldName(bs.field.X.Type(), bs.field.Field)
		if i, dup := seen[name]; dup {
			if bound > out[i].bound {
				out[i].bound, out[i].at = bound, p.FuncName(g)
			}
			continue
		}
		seen[name] = len(out)
		out = append(out, c01Counter{h, bs.field.Field, name, bound, p.FuncName(g)})
	}
	return out
}

// c01RenderingRecord: the struct (other than ExecutionContext) that holds execution-time counters, if there is one.
func c01RenderingRecord(p *Prog, a *Anchors) *types.Named {
	for _, c := range c01ExecCounters(p, a) {
		if c.holder != a.ExecCtx {
			return c.holder
		}
	}
	return nil
}

// c01RecordOf: v is the rendering record of context `of`: a load of its field, or the result of a method of
// ExecutionContext called on it that returns the field (a lazy accessor).
func c01RecordOf(p *Prog, v ssa.Value, of ssa.Value, recIdx int) bool {
	v = stripLoad(v)
	if u, ok := v.(*ssa.UnOp); ok && u.Op == token.MUL {
		if fa, ok := u.X.(*ssa.FieldAddr); ok && fa.Field == recIdx && unspillParam(stripLoad(fa.X)) == of {
			return true
		}
	}
	if c, ok := v.(*ssa.Call); ok {
		callee := c.Common().StaticCallee()
		if callee == nil || callee.Blocks == nil || !p.InPkg(callee) || len(c.Common().Args) == 0 || len(callee.Params) == 0 {
			return false
		}
		if unspillParam(stripLoad(c.Common().Args[0])) != of {
			return false
		}
		for _, ret := range returnsOf(callee) {
			if len(ret.Results) != 1 || !c01RecordOf(p, ret.Results[0], callee.Params[0], recIdx) {
				return false
			}
		}
		return len(returnsOf(callee)) > 0
	}
	return false
}

// R-C01-PERRENDER. The recursion bounds of an execution bound the stack only if the counting sees every activation of
// the rendering. A macro body runs in a context derived from the context its macro tag was executed in — not from the
// caller's —, and block.Super may be called from inside a macro: a counter that is a field of the ExecutionContext,
// copied into every derived context, starts again at the definition (two macros calling each other, one defined in the
// other, recurse twice as deep; a macro that includes templates which call it again gets a fresh template depth in
// every activation). The counters therefore live in ONE record per rendering: not in the context itself, allocated
// only where a root context is made (or lazily by the context's own accessor), and taken over by the context of a
// template that another one executes.
func ruleC01PerRendering(p *Prog, a *Anchors, r *Report) {
	r.Begin("R-C01-PERRENDER", "the counters behind the execution-time recursion bounds are kept once per rendering (a record all contexts of the rendering point to), not per context", 2)
	counters := c01ExecCounters(p, a)
	if len(counters) == 0 {
		r.Unk("none", "-", "no execution-time counter found")
		return
	}
	ctxPtr := types.NewPointer(a.ExecCtx)
	st := a.ExecCtx.Underlying().(*types.Struct)
	var rec *types.Named
	for _, c := range counters {
		key := c.name + ":per-rendering"
		if c.holder == a.ExecCtx {
			r.Bad(key, "-", "%s (bounded by %d in %s) is kept in the execution context and copied into derived contexts: a macro body runs in a context derived from where the macro was DEFINED, so the count starts again there — macros defined inside each other, or a macro reaching itself through included templates, are not stopped at the bound, and what fits the bound does not fit the stack", c.name, c.bound, c.at)
			continue
		}
		rec = c.holder
		r.OK(key, "-", "%s is a field of %s, which contexts refer to by pointer", c.name, c.holder.Obj().Name())
	}
	if rec == nil {
		return
	}
	recIdx := -1
	for i := 0; i < st.NumFields(); i++ {
		if pt, ok := st.Field(i).Type().(*types.Pointer); ok && types.Identical(pt.Elem(), rec) {
			recIdx = i
		}
	}
	if recIdx < 0 {
		r.Unk(rec.Obj().Name()+":reached", "-", "ExecutionContext has no pointer field of type *%s", rec.Obj().Name())
		return
	}
	// allocations of the record
	for _, f := range p.inPkgFuncsSorted(p.allFuncSet()) {
		for _, b := range f.Blocks {
			for _, in := range b.Instrs {
				al, ok := in.(*ssa.Alloc)
				if !ok || !types.Identical(al.Type(), types.NewPointer(rec)) {
					continue
				}
				key := p.FuncName(f) + ":makes " + rec.Obj().Name()
				// a root context is made here (no context to derive from) …
				root := paramOfType(f, ctxPtr) == nil
				if root {
					makesCtx := false
					for _, bb := range f.Blocks {
						for _, i2 := range bb.Instrs {
							if a2, ok := i2.(*ssa.Alloc); ok && types.Identical(a2.Type(), ctxPtr) {
								makesCtx = true
							}
						}
					}
					root = makesCtx
				}
				// … or the context's accessor makes it on the nil edge of its own field
				lazy := false
				if recv := f.Signature.Recv(); recv != nil && types.Identical(recv.Type(), ctxPtr) && len(f.Params) > 0 {
					lazy = Guarded(in, func(c ssa.Value, pol bool) bool {
						x, eq, isNil := condIsNilTest(c)
						if !isNil || eq != pol {
							return false
						}
						u, ok := x.(*ssa.UnOp)
						if !ok {
							return false
						}
						fa, ok := u.X.(*ssa.FieldAddr)
						return ok && fa.Field == recIdx && unspillParam(stripLoad(fa.X)) == ssa.Value(f.Params[0])
					})
				}
				switch {
				case root:
					r.OK(key, p.InstrPos(in), "made with the root context of a rendering")
				case lazy:
					r.OK(key, p.InstrPos(in), "made by the context's accessor only when the context has none")
				default:
					r.Bad(key, p.InstrPos(in), "%s makes a new %s for a context that belongs to a running rendering: what executes in that context counts its nesting from zero", p.FuncName(f), rec.Obj().Name())
				}
			}
		}
	}
	// the executor takes the record of the executing context over
	ex := a.ExecCore
	var from *ssa.Parameter
	if ex != nil && len(ex.Params) > 0 {
		for _, pa := range ex.Params[1:] {
			if types.Identical(pa.Type(), ctxPtr) {
				from = pa
			}
		}
	}
	key := "nested-execution:counts-on"
	switch {
	case ex == nil || from == nil:
		r.Bad(key, "-", "the executor is not told which context executes a nested template: every include/ssi counts its nesting from zero")
	default:
		taken := false
		for _, b := range ex.Blocks {
			for _, in := range b.Instrs {
				s, ok := in.(*ssa.Store)
				if !ok {
					continue
				}
				fa, ok := s.Addr.(*ssa.FieldAddr)
				if !ok || fa.Field != recIdx || !types.Identical(fa.X.Type(), ctxPtr) {
					continue
				}
				if c01RecordOf(p, s.Val, from, recIdx) {
					taken = true
				}
			}
		}
		if !taken {
			// in a helper the executor calls with `from`
			for _, b := range ex.Blocks {
				for _, in := range b.Instrs {
					c, ok := in.(*ssa.Call)
					if !ok || c.Common().StaticCallee() == nil || c.Common().StaticCallee().Blocks == nil {
						continue
					}
					callee := c.Common().StaticCallee()
					for i, arg := range callArgs(c.Common()) {
						if stripLoad(arg) != ssa.Value(from) || i >= len(callee.Params) {
							continue
						}
						for _, hb := range callee.Blocks {
							for _, hin := range hb.Instrs {
								if s, ok := hin.(*ssa.Store); ok {
									if fa, ok := s.Addr.(*ssa.FieldAddr); ok && fa.Field == recIdx && types.Identical(fa.X.Type(), ctxPtr) && c01RecordOf(p, s.Val, callee.Params[i], recIdx) {
										taken = true
									}
								}
							}
						}
					}
				}
			}
		}
		if taken {
			r.OK(key, p.Pos(ex.Pos()), "the context of a nested execution takes over the %s of the context that executes it", rec.Obj().Name())
		} else {
			r.Bad(key, p.Pos(ex.Pos()), "the context of a template executed by another one (include, ssi) does not take over ExecutionContext.%s: every nested template counts its nesting from zero, and a macro reaching itself through included templates is never stopped", st.Field(recIdx).Name())
		}
	}
}

// c01MayBeCallersError: the error result of this call of a package function can be a value that registered or
// context code made (it was taken out of a reflect.Value or out of an `any`), as opposed to one the engine built
// (fmt.Errorf, errors.New, an *Error).
func c01MayBeCallersError(p *Prog, c *ssa.Call, depth int) bool {
	callee := c.Common().StaticCallee()
	if callee == nil || callee.Blocks == nil || !p.InPkg(callee) || depth > 2 {
		return false
	}
	ei := -1
	res := callee.Signature.Results()
	for i := 0; i < res.Len(); i++ {
		if types.Identical(res.At(i).Type(), types.Universe.Lookup("error").Type()) {
			ei = i
		}
	}
	if ei < 0 {
		return false
	}
	var from func(v ssa.Value, d int) bool
	seen := map[ssa.Value]bool{}
	from = func(v ssa.Value, d int) bool {
		if v == nil || seen[v] || d > 8 {
			return false
		}
		seen[v] = true
		switch x := v.(type) {
		case *ssa.TypeAssert:
			// taken out of an interface value: reflect's Interface(), an `any`
			if it, isI := x.X.Type().Underlying().(*types.Interface); isI && it.NumMethods() == 0 {
				return true
			}
		case *ssa.Extract:
			if cc, ok := x.Tuple.(*ssa.Call); ok {
				return c01MayBeCallersError(p, cc, depth+1)
			}
			return from(x.Tuple, d+1)
		case *ssa.Phi:
			for _, e := range x.Edges {
				if from(e, d+1) {
					return true
				}
			}
		case *ssa.UnOp:
			if cell, ok := x.X.(*ssa.Alloc); ok {
				for _, sv := range allStoresTo(cell) {
					if from(sv, d+1) {
						return true
					}
				}
			}
		case *ssa.ChangeInterface:
			return from(x.X, d+1)
		case *ssa.Call:
			return c01MayBeCallersError(p, x, depth+1)
		}
		return false
	}
	for _, ret := range returnsOf(callee) {
		if ei < len(ret.Results) && from(ret.Results[ei], 0) {
			return true
		}
	}
	return false
}

// c01ErrorTextHelper: g is a function of the package with an `error` parameter that returns a string and calls Error()
// on that parameter: the index of the parameter (else -1).
func c01ErrorTextHelper(p *Prog, g *ssa.Function) int {
	if g == nil || g.Blocks == nil || !p.InPkg(g) || g.Signature.Results().Len() != 1 {
		return -1
	}
	if b, ok := g.Signature.Results().At(0).Type().Underlying().(*types.Basic); !ok || b.Kind() != types.String {
		return -1
	}
	errT := types.Universe.Lookup("error").Type()
	for _, b := range g.Blocks {
		for _, in := range b.Instrs {
			c, ok := in.(*ssa.Call)
			if !ok || !c.Common().IsInvoke() || c.Common().Method.Name() != "Error" {
				continue
			}
			v := c.Common().Value
			if up := unspillParam(v); up != nil {
				v = up
			}
			pa, ok := v.(*ssa.Parameter)
			if !ok || !types.Identical(pa.Type(), errT) {
				continue
			}
			for i, gp := range g.Params {
				if gp == pa {
					return i
				}
			}
		}
	}
	return -1
}

func isMakeClosure(v ssa.Value) bool { _, ok := v.(*ssa.MakeClosure); return ok }
