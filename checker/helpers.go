package main

import (
	"go/token"
	"go/types"

	"golang.org/x/tools/go/ssa"
)

// RootsUp: roots of v, with parameters of statically-called-only helpers resolved at their callers
// (up to `depth` levels). entries are never resolved further.
func (p *Prog) RootsUp(v ssa.Value, entries map[*ssa.Function]bool, depth int) []Root {
	var out []Root
	for _, r := range p.Roots(v) {
		out = append(out, p.liftRoot(r, entries, depth, map[*ssa.Function]bool{})...)
	}
	return dedupRootsCap(out, 0)
}

func (p *Prog) liftRoot(r Root, entries map[*ssa.Function]bool, depth int, seen map[*ssa.Function]bool) []Root {
	if r.Kind != RParam || depth == 0 || r.Fn == nil || seen[r.Fn] || !p.staticOnly(r.Fn, entries) {
		return []Root{r}
	}
	seen[r.Fn] = true
	defer delete(seen, r.Fn)
	var out []Root
	for _, e := range p.CG.Nodes[r.Fn].In {
		args := callArgs(e.Site.Common())
		if r.Idx < 0 || r.Idx >= len(args) {
			out = append(out, Root{Kind: RUnknown, Name: "param index", Typ: r.Typ})
			continue
		}
		for _, c := range p.Roots(args[r.Idx]) {
			n := c
			n.Path = c.Path + r.Path
			n.Owners = append(append([]Owner{}, c.Owners...), r.Owners...)
			out = append(out, p.liftRoot(n, entries, depth-1, seen)...)
		}
	}
	return out
}

// errorResultIndex returns the index of the last result if it is an error-like type (error or *Error), else -1.
func errorResultIndex(f *ssa.Function) int {
	res := f.Signature.Results()
	if res.Len() == 0 {
		return -1
	}
	last := res.At(res.Len() - 1).Type()
	if types.Identical(last, types.Universe.Lookup("error").Type()) {
		return res.Len() - 1
	}
	if pt, ok := last.(*types.Pointer); ok {
		if n, ok := pt.Elem().(*types.Named); ok && n.Obj().Name() == "Error" {
			return res.Len() - 1
		}
	}
	return -1
}

// returnsOf lists the Return instructions of f, ignoring the synthetic recover block (reached only when a
// deferred call recovers from a panic; it returns the current values of the result cells).
func returnsOf(f *ssa.Function) []*ssa.Return {
	var out []*ssa.Return
	for _, b := range f.Blocks {
		if b == f.Recover || len(b.Instrs) == 0 {
			continue
		}
		if ret, ok := b.Instrs[len(b.Instrs)-1].(*ssa.Return); ok {
			out = append(out, ret)
		}
	}
	return out
}

// successReturns: Return instructions of f whose error result is the nil constant (or which have no error result).
func successReturns(f *ssa.Function) []*ssa.Return {
	ei := errorResultIndex(f)
	var out []*ssa.Return
	for _, ret := range returnsOf(f) {
		if ei < 0 || ei >= len(ret.Results) || isNilConst(res(ret, ei)) {
			out = append(out, ret)
			continue
		}
		if !mayBeNilValue(res(ret, ei), 0) {
			continue
		}
		// `if err != nil { return nil, err }`: the returned value was tested non-nil on every path to the return
		ev := res(ret, ei)
		if guardedNonNil(ret, ev) {
			continue
		}
		out = append(out, ret)
	}
	return out
}

// guardedNonNil: every path to instruction `at` passed the `!= nil` edge of a nil test of v (or of the value v
// was converted from / loaded from the same cell).
func guardedNonNil(at ssa.Instruction, v ssa.Value) bool {
	cands := []ssa.Value{v}
	for d := 0; d < 4; d++ {
		last := cands[len(cands)-1]
		switch x := last.(type) {
		case *ssa.MakeInterface:
			cands = append(cands, x.X)
		case *ssa.ChangeInterface:
			cands = append(cands, x.X)
		case *ssa.UnOp:
			if sv := localLoadValue(x); sv != nil {
				cands = append(cands, sv)
			} else {
				d = 4
			}
		default:
			d = 4
		}
	}
	return Guarded(at, func(c ssa.Value, pol bool) bool {
		x, eq, isNil := condIsNilTest(c)
		if !isNil || eq == pol {
			return false
		}
		for _, cv := range cands {
			if x == cv {
				return true
			}
		}
		return false
	})
}

// mayBeNilValue: conservative: true unless the value is certainly non-nil.
func mayBeNilValue(v ssa.Value, depth int) bool {
	return !definitelyNonNil(v, depth)
}

// errorReturnsOnly: every Return reachable from block b returns a certainly non-nil error.
func errorReturnsOnly(f *ssa.Function, b *ssa.BasicBlock) bool {
	ei := errorResultIndex(f)
	if ei < 0 {
		return false
	}
	ok := true
	any := false
	ReturnsFrom(b, func(r *ssa.Return) {
		any = true
		if ei >= len(r.Results) || !(definitelyNonNil(res(r, ei), 0) || guardedNonNil(r, res(r, ei))) {
			ok = false
		}
	})
	return ok && any
}

// lookupCommaOk matches `_, ok := m[k]` conditions: cond is Extract(Lookup(m,k,commaok),1); returns the Lookup.
func lookupCommaOk(cond ssa.Value) *ssa.Lookup {
	ex, ok := cond.(*ssa.Extract)
	if !ok || ex.Index != 1 {
		return nil
	}
	lk, ok := ex.Tuple.(*ssa.Lookup)
	if !ok || !lk.CommaOk {
		return nil
	}
	return lk
}

// isLoadOfGlobal: v is *g for package variable g.
func isLoadOfGlobal(v ssa.Value, g *ssa.Global) bool {
	u, ok := v.(*ssa.UnOp)
	return ok && u.Op == token.MUL && u.X == g
}

// callsTo lists the call instructions in f whose static callee is target.
func callsTo(f *ssa.Function, target *ssa.Function) []ssa.CallInstruction {
	var out []ssa.CallInstruction
	for _, b := range f.Blocks {
		for _, in := range b.Instrs {
			if ci, ok := in.(ssa.CallInstruction); ok && ci.Common().StaticCallee() == target {
				out = append(out, ci)
			}
		}
	}
	return out
}

// withClosures returns f and all functions nested in it.
func withClosures(f *ssa.Function) []*ssa.Function {
	out := []*ssa.Function{f}
	for _, a := range f.AnonFuncs {
		out = append(out, withClosures(a)...)
	}
	return out
}

// topLevel returns the outermost enclosing function.
func topLevel(f *ssa.Function) *ssa.Function {
	for f.Parent() != nil {
		f = f.Parent()
	}
	return f
}

// paramOfType returns the first parameter of f whose type is identical to T.
func paramOfType(f *ssa.Function, T types.Type) *ssa.Parameter {
	for _, pa := range f.Params {
		if types.Identical(pa.Type(), T) {
			return pa
		}
	}
	return nil
}

// res returns result #i of a Return, looking through the result cells go/ssa introduces when the function has
// deferred calls (`*cell = v; rundefers; t = *cell; return t`).
func res(ret *ssa.Return, i int) ssa.Value {
	v := ret.Results[i]
	if u, ok := v.(*ssa.UnOp); ok {
		if sv := localLoadValue(u); sv != nil {
			return sv
		}
	}
	return v
}

// clusterOf: f, its closures and the package functions they call statically (transitively up to depth): the unit a
// maintainer may freely redistribute code in by extracting/inlining helpers.
func clusterOf(p *Prog, f *ssa.Function, depth int) []*ssa.Function {
	seen := map[*ssa.Function]bool{}
	var out []*ssa.Function
	var visit func(fn *ssa.Function, d int)
	visit = func(fn *ssa.Function, d int) {
		if fn == nil || seen[fn] || fn.Blocks == nil || !p.InPkg(fn) {
			return
		}
		seen[fn] = true
		out = append(out, fn)
		for _, a := range fn.AnonFuncs {
			visit(a, d)
		}
		if d == 0 {
			return
		}
		for _, b := range fn.Blocks {
			for _, in := range b.Instrs {
				if ci, ok := in.(ssa.CallInstruction); ok {
					visit(ci.Common().StaticCallee(), d-1)
				}
			}
		}
	}
	visit(f, depth)
	return out
}

// existsPredicate: f is a small bool function whose result is the comma-ok of a lookup of its (string) parameter in
// the given registry (FilterExists, tagExists, …).
func existsPredicate(p *Prog, f *ssa.Function, reg *ssa.Global) bool {
	if f == nil || f.Blocks == nil || f.Signature.Results().Len() != 1 || len(f.Params) != 1 {
		return false
	}
	for _, ret := range returnsOf(f) {
		ex, ok := res(ret, 0).(*ssa.Extract)
		if !ok || ex.Index != 1 {
			return false
		}
		lk, ok := ex.Tuple.(*ssa.Lookup)
		if !ok || !isLoadOfGlobal(lk.X, reg) || lk.Index != ssa.Value(f.Params[0]) {
			return false
		}
	}
	return true
}

// paramActuals: the actual arguments passed for parameter pa of an unexported, only statically called package
// function (nil when the function may be called in a way we do not see: exported, address taken, no caller).
func paramActuals(p *Prog, pa *ssa.Parameter) []ssa.Value {
	f := pa.Parent()
	if f == nil || f.Parent() != nil || (f.Object() != nil && f.Object().Exported()) || !p.staticOnly(f, nil) {
		return nil
	}
	idx := -1
	for i, q := range f.Params {
		if q == pa {
			idx = i
		}
	}
	node := p.CG.Nodes[f]
	if idx < 0 || node == nil || len(node.In) == 0 {
		return nil
	}
	var out []ssa.Value
	for _, edge := range node.In {
		if !p.InPkg(edge.Caller.Func) {
			return nil
		}
		args := callArgs(edge.Site.Common())
		if idx >= len(args) {
			return nil
		}
		out = append(out, args[idx])
	}
	return out
}

// reflectCallWrapperIdx: f is a package helper through which a reflect Call is made: two of its parameters, a
// reflect.Value fn and a []reflect.Value args, are handed unchanged to `fn.Call(args)` — or to another such helper —
// exactly once, and fn is not used for any other kind-restricted operation. Typical: a deferred-recover wrapper
// (safeCall), or a method that also unpacks the results (invoke). A call of such a helper is judged like the reflect
// Call it makes: preconditions at the helper's call sites, results as Call results. Returns the parameter indices.
func reflectCallWrapperIdx(p *Prog, f *ssa.Function, depth int) (fnIdx, argsIdx int, ok bool) {
	if f == nil || depth > 2 || !p.InPkg(f) || f.Blocks == nil || f.Signature.Results().Len() < 1 {
		return 0, 0, false
	}
	paramIdx := func(v ssa.Value) int {
		v = stripLoad(v)
		for i, pa := range f.Params {
			if ssa.Value(pa) == v {
				return i
			}
		}
		return -1
	}
	n := 0
	for _, b := range f.Blocks {
		for _, in := range b.Instrs {
			c, isC := in.(*ssa.Call)
			if !isC || c.Common().StaticCallee() == nil {
				continue
			}
			cal := c.Common().StaticCallee()
			args := c.Common().Args
			var fi, ai int
			switch {
			case p.extName(cal) == "(reflect.Value).Call" && len(args) >= 2:
				fi, ai = paramIdx(args[0]), paramIdx(args[1])
			default:
				wf, wa, isW := reflectCallWrapperIdx(p, cal, depth+1)
				if !isW || wf >= len(args) || wa >= len(args) {
					continue
				}
				fi, ai = paramIdx(args[wf]), paramIdx(args[wa])
			}
			if fi < 0 || ai < 0 {
				return 0, 0, false // calls something that is not its own parameters
			}
			fnIdx, argsIdx = fi, ai
			n++
		}
	}
	return fnIdx, argsIdx, n == 1
}

// reflectCallWrapper: see reflectCallWrapperIdx.
func reflectCallWrapper(p *Prog, f *ssa.Function) bool {
	_, _, ok := reflectCallWrapperIdx(p, f, 0)
	return ok
}

// asReflectCallSite: in is `fn.Call(args)` or a call of a reflectCallWrapper; returns the function value and the
// argument slice.
func asReflectCallSite(p *Prog, in ssa.Instruction) (fn, args ssa.Value, ok bool) {
	c, isC := in.(*ssa.Call)
	if !isC || c.Common().StaticCallee() == nil {
		return nil, nil, false
	}
	cal := c.Common().StaticCallee()
	if p.extName(cal) == "(reflect.Value).Call" && len(c.Common().Args) >= 2 {
		return c.Common().Args[0], c.Common().Args[1], true
	}
	if fi, ai, isW := reflectCallWrapperIdx(p, cal, 0); isW && fi < len(c.Common().Args) && ai < len(c.Common().Args) {
		return c.Common().Args[fi], c.Common().Args[ai], true
	}
	return nil, nil, false
}

// recoversIntoError: f defers a closure that calls recover() and stores into f's error result: a panic raised while f
// runs (by code f calls, or by a library operation in f) does not leave f — it is returned as an error.
func recoversIntoError(f *ssa.Function) bool {
	if f == nil || f.Blocks == nil {
		return false
	}
	res := f.Signature.Results()
	if res.Len() == 0 || typeName(res.At(res.Len()-1).Type()) != "error" {
		return false
	}
	for _, b := range f.Blocks {
		for _, in := range b.Instrs {
			d, ok := in.(*ssa.Defer)
			if !ok {
				continue
			}
			var cl *ssa.Function
			switch v := d.Call.Value.(type) {
			case *ssa.MakeClosure:
				cl, _ = v.Fn.(*ssa.Function)
			case *ssa.Function:
				cl = v
			}
			if cl == nil || cl.Blocks == nil {
				continue
			}
			rec, sets := false, false
			for _, cb := range cl.Blocks {
				for _, ci := range cb.Instrs {
					if c, isC := ci.(*ssa.Call); isC {
						if bi, isB := c.Common().Value.(*ssa.Builtin); isB && bi.Name() == "recover" {
							rec = true
						}
					}
					if st, isSt := ci.(*ssa.Store); isSt {
						if fv, isFV := st.Addr.(*ssa.FreeVar); isFV && typeName(fv.Type().(*types.Pointer).Elem()) == "error" {
							sets = true
						}
					}
				}
			}
			// the deferred closure must be registered before anything else can panic: in the entry block
			if rec && sets && b == f.Blocks[0] {
				return true
			}
		}
	}
	return false
}

// errValueDiscipline follows an error value (through phis and local cells): used reports that it is tested against
// nil with the non-nil case ending in an error return, returned, or handed on; dropped names a nil test of it whose
// non-nil case goes on to something else than an error return.
func errValueDiscipline(p *Prog, f *ssa.Function, ex ssa.Value) (used bool, dropped string) {
	seen := map[ssa.Value]bool{}
	var walk func(v ssa.Value, d int)
	walk = func(v ssa.Value, d int) {
		if seen[v] || d > 6 {
			return
		}
		seen[v] = true
		for _, uu := range refs(v) {
			switch x := uu.(type) {
			case *ssa.BinOp:
				if (x.Op != token.EQL && x.Op != token.NEQ) || !(isNilConst(x.X) || isNilConst(x.Y)) {
					used = true
					continue
				}
				for _, bu := range refs(x) {
					iff, isIf := bu.(*ssa.If)
					if !isIf {
						used = true
						continue
					}
					nonNil := iff.Block().Succs[0]
					if x.Op == token.EQL {
						nonNil = iff.Block().Succs[1]
					}
					if errorReturnsOnly(f, nonNil) {
						used = true
					} else if dropped == "" {
						dropped = p.InstrPos(iff)
					}
				}
			case *ssa.Return, *ssa.Call, *ssa.MakeInterface, *ssa.TypeAssert, *ssa.ChangeInterface:
				used = true
			case *ssa.Phi:
				walk(x, d+1)
			case *ssa.Store:
				if x.Val == v {
					for _, lu := range refs(x.Addr) {
						if l, isL := lu.(*ssa.UnOp); isL && l.Op == token.MUL {
							walk(l, d+1)
						}
					}
					if _, isAlloc := x.Addr.(*ssa.Alloc); !isAlloc {
						used = true // stored into a field/result: handed on
					}
				}
			}
		}
	}
	walk(ex, 0)
	return used, dropped
}
