package main

import (
	"encoding/json"
	"flag"
	"fmt"
	"os"
	"path/filepath"
	"runtime/debug"
	"sort"
	"strconv"
	"time"
)

type RunOpts struct {
	Property string
	Tier     string
	Repo     string
	VerifDir string
	Seed     int
	Replay   string
	OnlyRule string
	Verbose  bool
	Mutant   string
}

// ruleFn runs the rules of one property on one loaded configuration.
type ruleFn func(p *Prog, r *Report)

var properties = map[string]ruleFn{}

func register(id string, fn ruleFn) { properties[id] = fn }

func main() {
	o := &RunOpts{}
	flag.StringVar(&o.Property, "property", "", "property id (C01..C20) or 'all'")
	flag.StringVar(&o.Tier, "tier", "", "quick|thorough (default: $VERIF_TIER or quick)")
	flag.StringVar(&o.Repo, "repo", "/repo", "repository root")
	flag.StringVar(&o.VerifDir, "verif", "", "verification directory (default: parent of the binary's dir)")
	flag.StringVar(&o.Replay, "replay", "", "replay a violation record")
	flag.StringVar(&o.OnlyRule, "rule", "", "only print obligations of this rule (debug)")
	flag.BoolVar(&o.Verbose, "v", false, "print all obligations")
	flag.StringVar(&o.Mutant, "mutant", "", "(self-validation) analyse one mutant from mutants.json via overlay and print its failing obligations")
	flag.Parse()
	if o.Tier == "" {
		o.Tier = os.Getenv("VERIF_TIER")
	}
	if o.Tier != "thorough" {
		o.Tier = "quick"
	}
	if s := os.Getenv("VERIF_SEED"); s != "" {
		o.Seed, _ = strconv.Atoi(s)
	}
	if o.VerifDir == "" {
		exe, err := os.Executable()
		if err == nil {
			o.VerifDir = filepath.Dir(filepath.Dir(exe))
		} else {
			o.VerifDir = "/verif"
		}
	}
	if o.Mutant != "" {
		os.Exit(runMutantChild(o, o.Mutant))
	}
	if o.Replay != "" {
		b, err := os.ReadFile(o.Replay)
		if err != nil {
			fmt.Println("ERROR", err)
			os.Exit(2)
		}
		var rec map[string]any
		if err := json.Unmarshal(b, &rec); err != nil {
			fmt.Println("ERROR", err)
			os.Exit(2)
		}
		o.Property, _ = rec["property"].(string)
		fmt.Printf("replaying %s rule=%v construct=%v\n", o.Property, rec["rule"], rec["construct"])
	}
	if o.Property == "all" {
		code := 0
		var ids []string
		for id := range properties {
			ids = append(ids, id)
		}
		sort.Strings(ids)
		// one load shared by all properties (the rules only read the program)
		shared, err := Load(LoadOpts{Dir: o.Repo})
		if err != nil {
			shared = nil
		}
		for _, id := range ids {
			oo := *o
			oo.Property = id
			if c := runPropertyOn(&oo, shared); c > code {
				code = c
			}
		}
		os.Exit(code)
	}
	os.Exit(runProperty(o))
}

func runProperty(o *RunOpts) (code int) { return runPropertyOn(o, nil) }

func runPropertyOn(o *RunOpts, shared *Prog) (code int) {
	t0 := time.Now()
	fn, ok := properties[o.Property]
	if !ok {
		fmt.Printf("ERROR unknown or unclaimed property %q\n", o.Property)
		return 2
	}
	r := NewReport(o.Property)
	var p *Prog
	defer func() {
		if e := recover(); e != nil {
			// a checker crash is never silently a pass
			fmt.Printf("CHECKER PANIC: %v\n%s\n", e, debug.Stack())
			r.Begin("R-INTERNAL", "checker integrity", 0)
			r.Unk("checker-panic", "-", "the checker panicked: %v", e)
			code = r.Finish(o, p, time.Since(t0).Seconds())
		}
	}()
	var err error
	if shared != nil {
		p = shared
	} else {
		p, err = Load(LoadOpts{Dir: o.Repo})
	}
	if err != nil {
		r.Begin("R-LOAD", "tree loads and type-checks", 1)
		r.Unk("load", "-", "%v", err)
		return r.Finish(o, nil, time.Since(t0).Seconds())
	}
	fn(p, r)
	runControls(o, r)
	if o.Tier == "thorough" {
		thorough(o, p, r, fn)
	}
	if o.Verbose || o.OnlyRule != "" {
		for _, ob := range r.Obligs {
			if o.OnlyRule == "" || ob.Rule == o.OnlyRule {
				fmt.Printf("  [%s] %s %s @%s: %s\n", ob.Verdict, ob.Rule, ob.Key, ob.Pos, ob.Reason)
			}
		}
	}
	return r.Finish(o, p, time.Since(t0).Seconds())
}
