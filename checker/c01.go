package main

// C01 — totality: R-C01-K (reflect typestate), T (type assertions), D (integer division), P (explicit panics),
// CAP (resource caps), MACRO (recursion guard), LOCK (pairing, re-entry).

import (
	"strings"

	"golang.org/x/tools/go/ssa"
)

func init() { register("C01", checkC01) }

func checkC01(p *Prog, r *Report) {
	a := ResolveAnchors(p)
	if !anchorCheck(a, r) {
		return
	}
	ruleReflectTypestate(p, a, r, "R-C01-K", nil)
	ruleErrorAssertions(p, a, r, "R-C01-T", false)
	ruleNilPointerFromData(p, a, r, "R-C01-NILPTR")
	ruleReflectHazards(p, a, r, "R-C01-HAZARD", nil)
	ruleSelfPrintingValues(p, a, r, "R-C01-SELFPRINT")
	ruleNestingBound(p, a, r, "R-C01-NEST")
	ruleC01Recursion(p, a, r)
	ruleC01Reentry(p, a, r)
	ruleC01UserMethods(p, a, r)
	ruleC01Budget(p, a, r)
	ruleC01Counters(p, a, r)
	ruleC01CounterWrites(p, a, r)
	ruleC01PerRendering(p, a, r)
	ruleC01TreeHop(p, a, r)
	ruleC01Operand(p, a, r)
	ruleC01Balance(p, a, r)
	ruleC01Height(p, a, r)
	ruleC01DerefBound(p, a, r)
	ruleC01RuneGuard(p, a, r)
	ruleC01Rewrap(p, a, r)
	ruleDivisionGuards(p, a, r, "R-C01-D", false)
	ruleC01Panics(p, a, r)
	ruleResourceCaps(p, a, r, "R-C01-CAP")
	r.Begin("R-C01-MACRO-ANCHORS", "macro depth counter found by role", 1)
	if ma := resolveMacroAnchors(p, a, r); ma != nil {
		r.Trivial("anchors", "-", "depth counter ExecutionContext.%s", ma.depthField)
		ruleC13Guard(p, a, ma, r, "R-C01-MACRO")
	}
	r.Begin("R-C01-LOCK-ANCHORS", "cache mutex found by role", 1)
	if ca := resolveCacheAnchors(p, a, r); ca != nil {
		r.Trivial("anchors", "-", "mutex %s", ca.mutexField)
		lockers := ruleLockPairing(p, ca, r, "R-C01-LOCKPAIR")
		ruleLockReentry(p, ca, lockers, r, "R-C01-REENTRY")
	}
}

// frozen table of explicit panic sites reachable from compile/execution entries, each with its reason
var panicAllowed = map[string]string{
	"(*variablePart).String|panic":           "default arm of a switch over the four part types the parser creates (varTypeNil is never produced: the lexer emits no TokenNil); assumed unreachable",
	"(*variableResolver).resolve|panic":      "default arm of the switch over part types; the parser only creates int/ident/subscript parts here; assumed unreachable",
	"(*tagBlockNode).Execute|panic":          "internal assertion ctx.template != nil; execution contexts are always created with a template",
	"tagBlockParser|panic":                   "internal assertion doc.template != nil; document parsers always carry their template",
	"(*LocalFilesystemLoader).Abs|panic":     "os.Getwd failure (process has no working directory): environment fault, not template input",
	"Must|panic":                             "documented: Must panics on a compile error (start-up helper); nothing in the engine calls it",
	"MustApplyFilter|panic":                  "documented API that panics on error; not used by the engine",
	"NewSet|panic":                           "documented: a set needs at least one loader (configuration time)",
	"MustNewLocalFileSystemLoader|log.Panic": "documented Must* constructor (configuration time)",
	"MustNewHttpFileSystemLoader|log.Panic":  "documented Must* constructor (configuration time)",
}

func ruleC01Panics(p *Prog, a *Anchors, r *Report) {
	r.Begin("R-C01-P", "explicit panic sites (panic, log.Panic*, regexp.MustCompile of non-constants, Must*) reachable from compile/execution entries are exactly the reviewed ones", 4)
	reach := map[*ssa.Function]bool{}
	for f := range a.ExecReach() {
		reach[f] = true
	}
	for f := range a.CompileReach() {
		reach[f] = true
	}
	for _, f := range p.Funcs {
		fname := p.FuncName(topLevel(f))
		for _, b := range f.Blocks {
			for _, in := range b.Instrs {
				what := ""
				switch x := in.(type) {
				case *ssa.Panic:
					what = "panic"
				case ssa.CallInstruction:
					callee := x.Common().StaticCallee()
					if callee == nil {
						continue
					}
					n := p.extName(callee)
					switch {
					case strings.HasPrefix(n, "log.Panic") || strings.HasPrefix(n, "(*log.Logger).Panic") || strings.HasPrefix(n, "log.Fatal") || n == "os.Exit":
						what = "log.Panic"
					case n == "regexp.MustCompile" || n == "text/template.Must":
						if _, isC := constString(x.Common().Args[0]); !isC {
							what = n + "(non-constant)"
						}
					case (n == "Must" || n == "MustApplyFilter") && reach[f]:
						// (also in the Render* shortcuts: they have an error result to return a compile error in)
						what = "call " + n
					}
				}
				if what == "" {
					continue
				}
				key := fname + "|" + what
				pos := p.InstrPos(in)
				why, ok := panicAllowed[key]
				switch {
				case ok && reach[f]:
					r.Assume(key, pos, "%s", why)
				case ok:
					r.Trivial(key, pos, "not reachable from compile/execution entries; %s", why)
				case !reach[f]:
					r.Dead(key, pos, "panic site not reachable from compile/execution entries")
				default:
					r.Bad(key, pos, "a new explicit %s is reachable from compiling/executing a template: the engine must return an error instead", what)
				}
			}
		}
	}
}
