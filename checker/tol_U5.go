package main

// tol_U5.go — shapes in which the macro depth rules (anchors, R-C13-GUARD / R-C01-MACRO, R-C13-PAIR) recognise the
// depth counting when a maintainer has given its parts a name:
//   * the step `ctx.depth = ctx.depth ± 1` lives in a small function or method (enterMacroCall / leaveMacroCall) that
//     performs it on one of its parameters on every path: a call of such a step helper is the step, on the context
//     passed for that parameter (depthStepHelper, depthStepAt);
//   * the bound test lives in a predicate (possibly the same helper: `return ctx.depth <= max`), or in a helper that
//     answers with an error which is nil only within the bound (depthWithin);
//   * the increment of a step helper is undone where the helper is called (depthIncSites, depthUndone).

import (
	"go/token"

	"golang.org/x/tools/go/ssa"
)

// depthStoreBase: the context whose counter the store steps, or nil when in is not such a store.
func depthStoreBase(in ssa.Instruction, field string, op token.Token) ssa.Value {
	if !isDepthStore(in, field, op) {
		return nil
	}
	return in.(*ssa.Store).Addr.(*ssa.FieldAddr).X
}

func oppositeStep(op token.Token) token.Token {
	if op == token.ADD {
		return token.SUB
	}
	return token.ADD
}

// containsDepthStep: fn, one of its closures or a package function they call (plainly, deferred or as a goroutine; up to
// depth hops) contains the store that steps the counter by op.
func containsDepthStep(p *Prog, fn *ssa.Function, field string, op token.Token, depth int) bool {
	for _, g := range withClosures(fn) {
		for _, b := range g.Blocks {
			for _, in := range b.Instrs {
				if isDepthStore(in, field, op) {
					return true
				}
				ci, isCall := in.(ssa.CallInstruction)
				if !isCall || depth <= 0 {
					continue
				}
				if c := ci.Common().StaticCallee(); c != nil && c != fn && c.Parent() == nil && c.Blocks != nil && p.InPkg(c) && containsDepthStep(p, c, field, op, depth-1) {
					return true
				}
			}
		}
	}
	return false
}

// depthStepHelper: h is a small package function (not a closure) that performs the step `op` on the counter of one of
// its parameters on every path to each of its returns — itself or through another step helper — and never the opposite
// step. Returns the index of that parameter.
func depthStepHelper(p *Prog, h *ssa.Function, field string, op token.Token, depth int) (int, bool) {
	if h == nil || depth <= 0 || h.Parent() != nil || h.Blocks == nil || !p.InPkg(h) || len(h.Blocks) > 24 {
		return 0, false
	}
	if containsDepthStepRun(p, h, field, oppositeStep(op), 2) {
		return 0, false
	}
	var on *ssa.Parameter
	same := true
	isStep := func(x ssa.Instruction) bool {
		base, ok := depthStepAt(p, x, field, op, depth-1)
		if !ok {
			return false
		}
		pa, isP := unspillParam(stripLoad(base)).(*ssa.Parameter)
		if !isP || pa.Parent() != h {
			return false
		}
		if on != nil && on != pa {
			same = false
		}
		on = pa
		return true
	}
	rets := returnsOf(h)
	if len(rets) == 0 {
		return 0, false
	}
	for _, ret := range rets {
		if !MustPass(ret, isStep) {
			return 0, false
		}
	}
	if on == nil || !same {
		return 0, false
	}
	return indexOfParam(h, on), true
}

// depthStepAt: the instruction steps the counter: the store itself, or a plain call (not deferred, not a goroutine) of
// a step helper. Returns the context stepped.
func depthStepAt(p *Prog, in ssa.Instruction, field string, op token.Token, depth int) (ssa.Value, bool) {
	if base := depthStoreBase(in, field, op); base != nil {
		return base, true
	}
	c, ok := in.(*ssa.Call)
	if !ok || c.Common().IsInvoke() {
		return nil, false
	}
	h := c.Common().StaticCallee()
	idx, ok := depthStepHelper(p, h, field, op, depth)
	if !ok || idx >= len(c.Common().Args) {
		return nil, false
	}
	return c.Common().Args[idx], true
}

// isDepthStep: see depthStepAt.
func isDepthStep(p *Prog, in ssa.Instruction, field string, op token.Token) bool {
	_, ok := depthStepAt(p, in, field, op, 2)
	return ok
}

// depthWithin: taking the edge on which c has the truth value pol establishes that the depth counter is within a
// constant cap:
//   - c is the comparison itself (depthCmp),
//   - c is the call of a small predicate that answers pol only when such a comparison went the within-cap way
//     (`return ctx.depth <= max`, `if ctx.depth > max { return false }; return true`, and the negated forms), or
//   - c is a nil test of the error answered by a package helper, on its `== nil` side, and every return of the helper
//     whose error may be nil is reached only on the within-cap edge of such a comparison.
func depthWithin(p *Prog, c ssa.Value, pol bool, field string) (capv int64, ok bool) {
	direct := func(c ssa.Value, pol bool, _ []*ssa.Call) bool {
		within, kv, isCmp := depthCmp(c, field)
		if isCmp && within == pol {
			capv = kv
			return true
		}
		return false
	}
	if condHolds(p, c, pol, nil, direct) {
		return capv, true
	}
	// the `within` result of an enter-helper that steps the counter and compares it with a bound it is given
	if bs, call, isBS := boolStepCond(p, c); isBS && pol == bs.withinWhen && fieldName(bs.field.X.Type(), bs.field.Field) == field {
		if n := structOf(bs.field.X.Type()); n != nil && n.Obj().Name() == depthHolder {
			kv := bs.boundConst
			if bs.boundParam != nil {
				kv = 0
				args := callArgs(call.Common())
				if i := indexOfParam(call.Common().StaticCallee(), bs.boundParam); i >= 0 && i < len(args) {
					if k, isK := constInt(args[i]); isK {
						kv = k
					}
				}
			}
			if kv > 0 {
				return kv, true
			}
		}
	}
	x, eq, isNil := condIsNilTest(c)
	if !isNil || eq != pol {
		return 0, false
	}
	// the value tested: the (error) result of a helper
	x = stripLoad(x)
	ri := 0
	if ex, isEx := x.(*ssa.Extract); isEx {
		x, ri = ex.Tuple, ex.Index
	}
	call, isCall := x.(*ssa.Call)
	if !isCall || call.Common().IsInvoke() {
		return 0, false
	}
	h := call.Common().StaticCallee()
	if h == nil || !p.InPkg(h) || h.Blocks == nil || len(h.Blocks) > 24 || h.Recover != nil {
		return 0, false
	}
	if ei := errorResultIndex(h); ei < 0 || ei != ri {
		return 0, false
	}
	rets := returnsOf(h)
	if len(rets) == 0 {
		return 0, false
	}
	for _, ret := range rets {
		if ri >= len(ret.Results) {
			return 0, false
		}
		ev := res(ret, ri)
		if definitelyNonNil(ev, 0) || guardedNonNil(ret, ev) {
			continue
		}
		if !Guarded(ret, func(cc ssa.Value, pp bool) bool { return condHolds(p, cc, pp, nil, direct) }) {
			return 0, false
		}
	}
	return capv, capv != 0
}

// depthExceedingEdge: the block of g that branches on the depth test and the index of its successor taken when the
// cap is exceeded (the edge that is not established to be within the cap).
func depthExceedingEdge(p *Prog, g *ssa.Function, field string) (*ssa.BasicBlock, int) {
	var cmpBlock *ssa.BasicBlock
	cmpIdx := 0
	for _, b := range g.Blocks {
		if len(b.Instrs) == 0 {
			continue
		}
		iff, ok := b.Instrs[len(b.Instrs)-1].(*ssa.If)
		if !ok || len(b.Succs) != 2 {
			continue
		}
		c, pol := normCond(iff.Cond, true)
		for _, w := range []bool{true, false} {
			if _, ok := depthWithin(p, c, w, field); ok {
				cmpBlock = b
				cmpIdx = 0
				if w == pol {
					cmpIdx = 1 // the first successor is the within-cap edge
				}
				break
			}
		}
	}
	return cmpBlock, cmpIdx
}

// depthIncSites: where the increment `in` of function f has to be undone: in f itself, or — when f is a step helper
// that every caller calls plainly and statically from the package — at each of those calls (recursively, when the
// caller is again such a helper). plain=false: the helper is called in a way that cannot be judged (exported, method
// value, deferred, go, no caller); the increment is then judged where it stands.
func depthIncSites(p *Prog, in ssa.Instruction, field string, depth int) []ssa.Instruction {
	h := in.Parent()
	if depth <= 0 {
		return []ssa.Instruction{in}
	}
	if _, ok := depthStepHelper(p, h, field, token.ADD, 2); !ok {
		return []ssa.Instruction{in}
	}
	if (h.Object() != nil && h.Object().Exported()) || !p.staticOnly(h, nil) {
		return []ssa.Instruction{in}
	}
	var out []ssa.Instruction
	for _, e := range p.Callers(p.CG, h) {
		site, isCall := e.Site.(*ssa.Call)
		if !isCall || !p.InPkg(site.Parent()) {
			return []ssa.Instruction{in}
		}
		if !isDepthStep(p, site, field, token.ADD) {
			return []ssa.Instruction{in}
		}
		out = append(out, depthIncSites(p, site, field, depth-1)...)
	}
	if len(out) == 0 {
		return []ssa.Instruction{in}
	}
	return out
}

// sameContext: both values certainly denote the same context (the same parameter, or the same value number).
func sameContext(p *Prog, a, b ssa.Value) bool {
	a, b = unspillParam(stripLoad(a)), unspillParam(stripLoad(b))
	return a == b || p.VN(a) == p.VN(b)
}

// depthDecrements: fn, run as a deferred function with the given call, takes the increment on incCtx back: it contains
// the decrementing store (as written in place), is a decrementing step helper called on the same context, or contains
// the plain call of one.
func depthDecrements(p *Prog, d *ssa.Defer, fn *ssa.Function, field string, incCtx ssa.Value, incIsCall bool) bool {
	if idx, ok := depthStepHelper(p, fn, field, token.SUB, 2); ok {
		if idx >= len(d.Call.Args) {
			return false
		}
		return !incIsCall || sameContext(p, d.Call.Args[idx], incCtx)
	}
	for _, bb := range fn.Blocks {
		for _, y := range bb.Instrs {
			if isDepthStep(p, y, field, token.SUB) {
				return true
			}
		}
	}
	return false
}

// depthUndone: the increment at `in` (a store, or the call of an incrementing step helper) is undone on every exit of
// its function: by a deferred decrement registered on every path, or by a decrement on every path to a return.
func depthUndone(p *Prog, in ssa.Instruction, field string) (ok bool, how string, off ssa.Instruction) {
	f := in.Parent()
	incCtx, _ := depthStepAt(p, in, field, token.ADD, 2)
	_, incIsCall := in.(*ssa.Call)
	for _, b := range f.Blocks {
		for _, x := range b.Instrs {
			d, isDefer := x.(*ssa.Defer)
			if !isDefer {
				continue
			}
			var fn *ssa.Function
			if mc, isMC := d.Call.Value.(*ssa.MakeClosure); isMC {
				fn = mc.Fn.(*ssa.Function)
			} else {
				fn = d.Call.StaticCallee()
			}
			if fn == nil {
				// `leave, within := n.enter(max); defer leave()`: the closure the stepping call itself handed back
				if cf, from := returnedClosure(p, d.Call.Value); cf != nil && ssa.Instruction(from) == in {
					decrements := false
					for _, bb := range cf.Blocks {
						for _, y := range bb.Instrs {
							if isDepthStore(y, field, token.SUB) {
								decrements = true
							}
						}
					}
					if decrements {
						pass, _ := AllExitsPass(in, func(z ssa.Instruction) bool { return z == ssa.Instruction(d) })
						if pass {
							return true, "the closure the step handed back is deferred on every path", nil
						}
					}
				}
				continue
			}
			if fn.Blocks == nil || !depthDecrements(p, d, fn, field, incCtx, incIsCall) {
				continue
			}
			// the defer must be registered on every path from the increment to any exit
			pass, _ := AllExitsPass(in, func(z ssa.Instruction) bool { return z == ssa.Instruction(d) })
			if pass || Dominates(d, in) {
				return true, "a deferred decrement is registered on every path", nil
			}
		}
	}
	pass, offending := AllExitsPass(in, func(z ssa.Instruction) bool {
		ctx, isStep := depthStepAt(p, z, field, token.SUB, 2)
		if !isStep {
			return false
		}
		if _, decIsCall := z.(*ssa.Call); decIsCall && incIsCall {
			return sameContext(p, ctx, incCtx)
		}
		return true
	})
	if pass {
		return true, "decremented on every path to a return", nil
	}
	return false, "", offending
}

// macroBodyRunner: g executes a macro's wrapper (the body of a macro).
func macroBodyRunner(g *ssa.Function) bool {
	for _, b := range g.Blocks {
		for _, x := range b.Instrs {
			if ci, isCall := x.(ssa.CallInstruction); isCall && ci.Common().StaticCallee() != nil && ci.Common().StaticCallee().Name() == "Execute" && len(ci.Common().Args) > 0 && loadsField(ci.Common().Args[0], "tagMacroNode", "wrapper") {
				return true
			}
		}
	}
	return false
}

// macroBodyExecutor: f (with its closures) runs a macro's body, or calls (one hop) the package function that does.
func macroBodyExecutor(p *Prog, f *ssa.Function) bool {
	for _, g := range withClosures(topLevel(f)) {
		if macroBodyRunner(g) {
			return true
		}
		for _, b := range g.Blocks {
			for _, x := range b.Instrs {
				if ci, isCall := x.(ssa.CallInstruction); isCall && ci.Common().StaticCallee() != nil && p.InPkg(ci.Common().StaticCallee()) && ci.Common().StaticCallee().Blocks != nil && macroBodyRunner(ci.Common().StaticCallee()) {
					return true
				}
			}
		}
	}
	return false
}

// steppedByExecutor: the increment `st` of an ExecutionContext counter stands in a step helper (a function or method
// that increments the counter of the context handed to it, on every path) which a macro body executor calls plainly:
// the counter is the one the executor counts its activations with (whether every route passes the step, and the bound
// test, is for the guard rule to judge).
func steppedByExecutor(p *Prog, st *ssa.Store, field string) bool {
	h := st.Parent()
	if _, ok := depthStepHelper(p, h, field, token.ADD, 2); !ok {
		return false
	}
	found := false
	p.EachInstr(func(g *ssa.Function, in ssa.Instruction) {
		c, isCall := in.(*ssa.Call)
		if found || !isCall || c.Common().StaticCallee() != h || !macroBodyExecutor(p, g) {
			return
		}
		found = true
	})
	return found
}

// containsDepthStepRun: like containsDepthStep, but a closure of fn counts only when fn itself runs it (calls, defers
// or starts it): a closure that fn merely hands back — `enter() (leave func(), within bool)` — runs when the caller
// says so, not as part of the step.
func containsDepthStepRun(p *Prog, fn *ssa.Function, field string, op token.Token, depth int) bool {
	run := []*ssa.Function{fn}
	seen := map[*ssa.Function]bool{fn: true}
	for i := 0; i < len(run); i++ {
		g := run[i]
		for _, b := range g.Blocks {
			for _, in := range b.Instrs {
				if isDepthStore(in, field, op) {
					return true
				}
				ci, isCall := in.(ssa.CallInstruction)
				if !isCall {
					continue
				}
				if mc, isMC := ci.Common().Value.(*ssa.MakeClosure); isMC {
					if cf, ok := mc.Fn.(*ssa.Function); ok && !seen[cf] {
						seen[cf] = true
						run = append(run, cf)
					}
					continue
				}
				if depth <= 0 {
					continue
				}
				if c := ci.Common().StaticCallee(); c != nil && c != fn && c.Parent() == nil && c.Blocks != nil && p.InPkg(c) && containsDepthStepRun(p, c, field, op, depth-1) {
					return true
				}
			}
		}
	}
	return false
}

// returnedClosure: the function value v is result #idx of a call of a package helper every return of which hands back,
// at that index, a closure of one function: that function and the call.
func returnedClosure(p *Prog, v ssa.Value) (*ssa.Function, *ssa.Call) {
	v = stripLoad(v)
	idx := 0
	if ex, ok := v.(*ssa.Extract); ok {
		v, idx = ex.Tuple, ex.Index
	}
	c, ok := v.(*ssa.Call)
	if !ok || c.Common().StaticCallee() == nil {
		return nil, nil
	}
	h := c.Common().StaticCallee()
	if h.Blocks == nil || !p.InPkg(h) {
		return nil, nil
	}
	var fn *ssa.Function
	for _, ret := range returnsOf(h) {
		if idx >= len(ret.Results) {
			return nil, nil
		}
		mc, ok := res(ret, idx).(*ssa.MakeClosure)
		if !ok {
			return nil, nil
		}
		cf, ok := mc.Fn.(*ssa.Function)
		if !ok || (fn != nil && fn != cf) {
			return nil, nil
		}
		fn = cf
	}
	return fn, c
}
