package main

// Tolerance U8 (C02, R-C02-SINK: the implicit escaping extracted into a helper that hands the value back).
// `val, err := escapeIfNeeded(ctx, expr, val, tok); …; writer.WriteString(val.String())`: the printed *Value is a
// result of a package helper. The value is judged at the returns of that helper exactly as it would be judged at the
// sink: every return gives back the escape filter's result, or a value (typically the helper's own parameter) behind
// one of the accepted opt-out tests made inside the helper on that very value, or a parameter handed back untested
// whose argument is escaped / opted out at the call (the parameters stand for the arguments of this call).

import (
	"fmt"
	"go/types"

	"golang.org/x/tools/go/ssa"
)

// valueFromHelperOK: v is result #idx of a static call of a package function with a body whose result #idx is a
// *Value. handled=false when v is no such result (the caller keeps its own verdict).
func valueFromHelperOK(p *Prog, a *Anchors, v ssa.Value, depth int) (ok bool, why string, handled bool) {
	var call *ssa.Call
	idx := 0
	switch x := v.(type) {
	case *ssa.Extract:
		call, _ = x.Tuple.(*ssa.Call)
		idx = x.Index
	case *ssa.Call:
		call = x
	}
	if call == nil {
		return false, "", false
	}
	callee := call.Common().StaticCallee()
	if callee == nil || !p.InPkg(callee) || callee.Blocks == nil {
		return false, "", false
	}
	results := callee.Signature.Results()
	if idx >= results.Len() || a.Value == nil || !types.Identical(results.At(idx).Type(), types.NewPointer(a.Value)) {
		return false, "", false
	}
	if _, isTuple := v.(*ssa.Call); isTuple && results.Len() != 1 {
		return false, "", false
	}
	args := call.Common().Args
	judged := 0
	for _, ret := range returnsOf(callee) {
		if idx >= len(ret.Results) {
			return false, "", false
		}
		rv := res(ret, idx)
		if isNilConst(rv) {
			continue // no value at all (the error exit): nothing of the context can be printed from it
		}
		judged++
		// the same judgement as at a sink, made where the helper hands the value back: escape result, or behind an
		// opt-out test of the returned value on every path to this return (per incoming edge for a phi)
		if good, _ := valueSinkOK(p, a, ret, rv, depth+1); good {
			continue
		}
		// a parameter handed back without a test in the helper: the argument of this call, judged at the call
		if pa, isPa := rv.(*ssa.Parameter); isPa && pa.Parent() == callee {
			handedOK := false
			for i, q := range callee.Params {
				if q == pa && i < len(args) && args[i].Parent() == call.Parent() {
					handedOK, _ = valueSinkOK(p, a, call, args[i], depth+1)
				}
			}
			if handedOK {
				continue
			}
		}
		return false, fmt.Sprintf("the printed value is the result of %s, which hands back %s at %s without having escaped it and without an opt-out test (autoescape off / |safe / marked safe / text that cannot carry data) on every path to that return: context text reaches the output raw", p.extName(callee), p.VN(rv), p.InstrPos(ret)), true
	}
	if judged == 0 {
		return false, "", false
	}
	return true, fmt.Sprintf("the printed value is the result of %s: each of its %d value returns hands back the escape filter's result or a value behind an opt-out test", p.extName(callee), judged), true
}
