package main

// C20 — template cache: R-C20-LOCK, PAIR, ATOMIC, OK, KEY, REENTRY, ISO.

import (
	"go/token"
	"go/types"
	"strconv"
	"strings"

	"golang.org/x/tools/go/ssa"
)

func init() { register("C20", checkC20) }

type cacheAnchors struct {
	cacheField string // field name of TemplateSet holding map[string]*Template
	mutexField string // "TemplateSet.<mutex>"
	debugField string
	resolveFn  *ssa.Function // resolveFilename
	fromFile   *ssa.Function
	fromCache  *ssa.Function // the function that both looks up and fills the cache
	cleanCache *ssa.Function
}

func resolveCacheAnchors(p *Prog, a *Anchors, r *Report) *cacheAnchors {
	ca := &cacheAnchors{}
	st := a.TemplateSet.Underlying().(*types.Struct)
	for i := 0; i < st.NumFields(); i++ {
		f := st.Field(i)
		if m, ok := f.Type().Underlying().(*types.Map); ok {
			if pt, ok := m.Elem().(*types.Pointer); ok && types.Identical(pt.Elem(), a.Template) {
				ca.cacheField = f.Name()
			}
		}
		if f.Name() == "Debug" && types.Identical(f.Type(), types.Typ[types.Bool]) {
			ca.debugField = f.Name()
		}
	}
	if ms := mutexFieldsOf(a.TemplateSet); len(ms) == 1 {
		ca.mutexField = ms[0]
	}
	ca.resolveFn = p.Method("TemplateSet", "resolveFilename")
	ca.fromFile = p.Method("TemplateSet", "FromFile")
	ok := true
	if ca.cacheField == "" {
		r.Unk("anchor", "-", "anchor unresolved: cache (map[string]*Template field of TemplateSet)")
		ok = false
	}
	if ca.mutexField == "" {
		r.Unk("anchor", "-", "anchor unresolved: exactly one sync.Mutex/RWMutex field of TemplateSet expected")
		ok = false
	}
	if ca.debugField == "" {
		r.Unk("anchor", "-", "anchor unresolved: TemplateSet.Debug bool field")
		ok = false
	}
	if ca.resolveFn == nil || ca.fromFile == nil {
		r.Unk("anchor", "-", "anchor unresolved: (*TemplateSet).resolveFilename / FromFile")
		ok = false
	}
	if !ok {
		return nil
	}
	return ca
}

// cacheAccess: instruction `in` touches the cache map (value loaded from the cache field) or the field itself.
type cacheAcc struct {
	In   ssa.Instruction
	Kind string // lookup, update, delete, range, len, load, assign
	Key  ssa.Value
	Val  ssa.Value
	Site ssa.Instruction // the access is made by an unexported helper: the call of that helper in f (else nil)
}

// at: where the access happens as seen from the function it is attributed to.
func (a cacheAcc) at() ssa.Instruction {
	if a.Site != nil {
		return a.Site
	}
	return a.In
}

// cacheAccesses: what f does with the cache map — itself, and through unexported helpers it calls statically that are
// called from nowhere else (the miss branch of FromCache extracted into loadIntoCache): those are attributed to f at
// the call site.
func cacheAccesses(p *Prog, f *ssa.Function, field string) []cacheAcc {
	out := cacheAccessesDirect(p, f, field)
	for _, b := range f.Blocks {
		for _, in := range b.Instrs {
			c, ok := in.(*ssa.Call)
			if !ok {
				continue
			}
			g := c.Common().StaticCallee()
			if g == nil || g == f || g.Blocks == nil || !p.InPkg(g) || g.Parent() != nil || (g.Object() != nil && g.Object().Exported()) || !p.staticOnly(g, nil) {
				continue
			}
			if node := p.CG.Nodes[g]; node == nil || len(node.In) != 1 {
				continue
			}
			if len(p.lockOps(g)) > 0 {
				continue // (a helper that takes the lock itself is the place of its accesses: judged on its own)
			}
			subst := func(v ssa.Value) ssa.Value {
				if pa, isP := v.(*ssa.Parameter); isP {
					args := callArgs(c.Common())
					if i := indexOfParam(g, pa); i < len(args) && g.Params[i] == pa {
						return args[i]
					}
				}
				return v
			}
			for _, acc := range cacheAccessesDirect(p, g, field) {
				acc.Site = in
				if acc.Key != nil {
					acc.Key = subst(acc.Key)
				}
				out = append(out, acc)
			}
		}
	}
	return out
}

func cacheAccessesDirect(p *Prog, f *ssa.Function, field string) []cacheAcc {
	var out []cacheAcc
	isCache := func(v ssa.Value) bool { return loadsField(v, "TemplateSet", field) }
	for _, b := range f.Blocks {
		for _, in := range b.Instrs {
			switch in := in.(type) {
			case *ssa.Lookup:
				if isCache(in.X) {
					out = append(out, cacheAcc{In: in, Kind: "lookup", Key: in.Index})
				}
			case *ssa.MapUpdate:
				if isCache(in.Map) {
					out = append(out, cacheAcc{In: in, Kind: "update", Key: in.Key, Val: in.Value})
				}
			case *ssa.Range:
				if isCache(in.X) {
					out = append(out, cacheAcc{In: in, Kind: "range"})
				}
			case *ssa.Store:
				if isFieldAddrOf(in.Addr, "TemplateSet", field) {
					out = append(out, cacheAcc{In: in, Kind: "assign", Val: in.Val})
				}
			case ssa.CallInstruction:
				cc := in.Common()
				if b, ok := cc.Value.(*ssa.Builtin); ok && len(cc.Args) > 0 && isCache(cc.Args[0]) {
					acc := cacheAcc{In: in, Kind: b.Name()}
					if b.Name() == "delete" && len(cc.Args) > 1 {
						acc.Key = cc.Args[1]
					}
					out = append(out, acc)
				} else {
					// the cache map escaping into a call: cannot follow
					for _, a := range callArgs(cc) {
						if isCache(a) {
							out = append(out, cacheAcc{In: in, Kind: "escape"})
						}
					}
				}
			}
		}
	}
	return out
}

func checkC20(p *Prog, r *Report) {
	a := ResolveAnchors(p)
	if !anchorCheck(a, r) {
		return
	}
	r.Begin("R-C20-ANCHORS", "cache map, its mutex, Debug flag and key normaliser found by role", 1)
	ca := resolveCacheAnchors(p, a, r)
	if ca == nil {
		return
	}
	r.Trivial("anchors", "-", "cache=TemplateSet.%s mutex=%s", ca.cacheField, ca.mutexField)

	// ---- R-C20-LOCK
	r.Begin("R-C20-LOCK", "every read, update, delete and re-assignment of the cache map happens while the set's mutex is held (constructor excepted)", 4)
	var fill, lookupFn *ssa.Function
	type facc struct {
		f   *ssa.Function
		acc cacheAcc
	}
	var all []facc
	for _, f := range p.Funcs {
		accs := cacheAccesses(p, f, ca.cacheField)
		if len(accs) == 0 {
			continue
		}
		held := p.heldAt(f, ca.mutexField)
		for _, acc := range accs {
			all = append(all, facc{f, acc})
			key := p.FuncName(f) + ":" + acc.Kind
			pos := p.InstrPos(acc.In)
			if acc.Kind == "assign" {
				if st := acc.In.(*ssa.Store); len(p.directAllocs(st.Addr.(*ssa.FieldAddr).X, 0)) > 0 {
					r.OK(key, pos, "constructor: the set object is freshly allocated and not yet shared")
					continue
				}
			}
			if acc.Kind == "escape" {
				r.Unk(key, pos, "the cache map is passed to a call; accesses behind it are not followed")
				continue
			}
			if held(acc.at()) {
				r.OK(key, pos, "cache %s under %s on every path", acc.Kind, ca.mutexField)
			} else {
				r.Bad(key, pos, "cache %s without holding %s on some path: concurrent FromCache/CleanCache calls race on the map", acc.Kind, ca.mutexField)
			}
			// (a helper whose accesses are attributed to its only caller is not itself the place of lookup/fill)
			attributed := false
			if acc.Site == nil && f.Parent() == nil && (f.Object() == nil || !f.Object().Exported()) && p.staticOnly(f, nil) && len(p.lockOps(f)) == 0 {
				if node := p.CG.Nodes[f]; node != nil && len(node.In) == 1 {
					attributed = true
				}
			}
			if acc.Kind == "update" && !attributed {
				fill = f
			}
			if acc.Kind == "lookup" && !attributed {
				lookupFn = f
			}
		}
	}

	lockers := ruleLockPairing(p, ca, r, "R-C20-PAIR")

	// ---- R-C20-ATOMIC
	r.Begin("R-C20-ATOMIC", "lookup and fill of the cache are one critical section (one compile per name under contention)", 1)
	if fill == nil || lookupFn == nil {
		r.Unk("fill", "-", "no function both looks up and fills the cache (lookup in %s, fill in %s)", p.FuncName(lookupFn), p.FuncName(fill))
	} else if fill != lookupFn {
		r.Bad("fill", p.Pos(fill.Pos()), "cache lookup (%s) and fill (%s) are in different functions: two goroutines can both miss and both compile", p.FuncName(lookupFn), p.FuncName(fill))
	} else {
		ca.fromCache = fill
		var lk, up ssa.Instruction
		for _, x := range all {
			if x.f == fill && x.acc.Kind == "lookup" {
				lk = x.acc.at()
			}
			if x.f == fill && x.acc.Kind == "update" {
				up = x.acc.at()
			}
		}
		bad := false
		for _, op := range p.lockOps(fill) {
			if op.Field != ca.mutexField || op.Lock || op.Deferred {
				continue
			}
			// explicit unlock between lookup and update?
			if ReachesFromInstr(lk, op.In) && ReachesFromInstr(op.In, up) {
				bad = true
				r.Bad(p.FuncName(fill)+":unlock-between", p.InstrPos(op.In), "the mutex is released between the cache lookup and the cache fill: concurrent callers all miss and each compile the template")
			}
		}
		if !Dominates(lk, up) {
			bad = true
			r.Bad(p.FuncName(fill)+":lookup-dominates-fill", p.InstrPos(up), "the fill is reachable without the lookup")
		}
		if !bad {
			r.OK(p.FuncName(fill)+":atomic", p.InstrPos(up), "lookup dominates fill and no Unlock lies between them")
		}
	}

	// ---- R-C20-OK
	r.Begin("R-C20-OK", "only successful loads are cached, and nothing is cached (or looked up) in debug mode", 2)
	if ca.fromCache != nil {
		f := ca.fromCache
		for _, x := range all {
			if x.f != f || (x.acc.Kind != "update" && x.acc.Kind != "lookup") {
				continue
			}
			pos := p.InstrPos(x.acc.In)
			// !Debug dominates: in the function itself, or — the locked part being an unexported helper — at every
			// call of that helper
			dbg, via := u7DebugBypassed(p, x.acc.at(), ca.debugField)
			if dbg {
				r.OK(p.FuncName(f)+":"+x.acc.Kind+":nodebug", pos, "reached only on the !%s edge%s", ca.debugField, via)
			} else {
				r.Bad(p.FuncName(f)+":"+x.acc.Kind+":nodebug", pos, "cache %s is reachable with %s set: debug mode must bypass the cache", x.acc.Kind, ca.debugField)
			}
			if x.acc.Kind != "update" {
				continue
			}
			// stored value = result 0 of a call whose error result was tested
			val := x.acc.Val
			ex, ok := val.(*ssa.Extract)
			var call *ssa.Call
			if ok {
				call, _ = ex.Tuple.(*ssa.Call)
			}
			if call == nil {
				// allow phi of a single extract
				r.Unk(p.FuncName(f)+":update:value", pos, "cached value is not directly the result of a load call (%s)", p.VN(val))
				continue
			}
			callee := call.Common().StaticCallee()
			if callee == nil || !types.Identical(callee.Signature.Results().At(callee.Signature.Results().Len()-1).Type(), types.Universe.Lookup("error").Type()) {
				r.Unk(p.FuncName(f)+":update:value", pos, "cached value comes from a call without error result")
				continue
			}
			errIdx := callee.Signature.Results().Len() - 1
			okGuard := Guarded(x.acc.In, func(c ssa.Value, pol bool) bool {
				v, eq, isNil := condIsNilTest(c)
				if !isNil {
					return false
				}
				e, ok := v.(*ssa.Extract)
				if !ok || e.Tuple != call || e.Index != errIdx {
					return false
				}
				return eq == pol // (err == nil) true-edge, or (err != nil) false-edge
			})
			if okGuard {
				r.OK(p.FuncName(f)+":update:success-only", pos, "the fill is reached only on the err == nil edge of %s", p.FuncName(callee))
			} else {
				r.Bad(p.FuncName(f)+":update:success-only", pos, "the cache is filled without testing the error of %s: failed loads get cached", p.FuncName(callee))
			}
		}
	}

	// ---- R-C20-KEY
	r.Begin("R-C20-KEY", "lookup, fill and delete use the same normalised key (resolveFilename(nil, name))", 3)
	isNormKey := func(v ssa.Value) bool {
		c, ok := v.(*ssa.Call)
		if !ok || c.Common().StaticCallee() != ca.resolveFn {
			return false
		}
		args := c.Common().Args
		return len(args) >= 2 && isNilConst(args[1])
	}
	for _, x := range all {
		if x.acc.Key == nil {
			continue
		}
		key := p.FuncName(x.f) + ":" + x.acc.Kind + ":key"
		// … the key may be a parameter of an unexported helper: then it is judged at every call of the helper
		if nk, via := u7NormKey(p, x.acc.Key, isNormKey, 0); nk {
			r.OK(key, p.InstrPos(x.acc.In), "key is %s%s", p.VN(x.acc.Key), via)
		} else {
			r.Bad(key, p.InstrPos(x.acc.In), "cache %s uses key %s which is not resolveFilename(nil, name): lookup/fill/delete disagree on the key", x.acc.Kind, p.VN(x.acc.Key))
		}
	}
	if ca.fromCache != nil {
		var lkKey, upKey ssa.Value
		for _, x := range all {
			if x.f == ca.fromCache && x.acc.Kind == "lookup" {
				lkKey = x.acc.Key
			}
			if x.f == ca.fromCache && x.acc.Kind == "update" {
				upKey = x.acc.Key
			}
		}
		if lkKey != nil && upKey != nil {
			if lkKey == upKey || p.VN(lkKey) == p.VN(upKey) {
				r.OK(p.FuncName(ca.fromCache)+":same-key", p.Pos(ca.fromCache.Pos()), "lookup and fill use the same key value")
			} else {
				r.Bad(p.FuncName(ca.fromCache)+":same-key", p.Pos(ca.fromCache.Pos()), "lookup key %s differs from fill key %s", p.VN(lkKey), p.VN(upKey))
			}
		}
	}
	// CleanCache without names re-assigns a fresh map
	for _, x := range all {
		if x.acc.Kind == "assign" && len(p.directAllocs(x.acc.In.(*ssa.Store).Addr.(*ssa.FieldAddr).X, 0)) == 0 {
			if _, ok := x.acc.Val.(*ssa.MakeMap); ok {
				r.OK(p.FuncName(x.f)+":assign:fresh", p.InstrPos(x.acc.In), "the cache field is re-assigned a freshly made map")
			} else {
				r.Bad(p.FuncName(x.f)+":assign:fresh", p.InstrPos(x.acc.In), "the cache field is re-assigned %s, not a fresh map", p.VN(x.acc.Val))
			}
		}
	}

	ruleLockReentry(p, ca, lockers, r, "R-C20-REENTRY")
	ruleC20Clean(p, a, ca, r)
	ruleC20SameLoad(p, a, ca, r)
	ruleC20DebugPure(p, a, ca, r)
	ruleC20OneCache(p, a, ca, r)

	// ---- R-C20-ISO
	r.Begin("R-C20-ISO", "per-set state is per instance: the constructor gives every map/pointer field a fresh object; Template.Options is fresh and copied into", 4)
	ruleSetIsolation(p, a, r)
}

func countPkg(p *Prog, reach map[*ssa.Function]bool) int {
	n := 0
	for f := range reach {
		if p.InPkg(f) {
			n++
		}
	}
	return n
}

func findOp(ops []lockOp, in ssa.Instruction) (lockOp, bool) {
	for _, o := range ops {
		if o.In == in {
			return o, true
		}
	}
	return lockOp{}, false
}

// ReachesFromInstr: can control flow from just after instruction a reach instruction b?
func ReachesFromInstr(a, b ssa.Instruction) bool {
	return !MustPassFrom(a.Block(), instrIndex(a)+1, b, func(ssa.Instruction) bool { return false })
}

// ruleSetIsolation: constructor of TemplateSet stores fresh values into map/pointer fields;
// the Template constructor gives Options a fresh object and copies the set's values into it.
func ruleSetIsolation(p *Prog, a *Anchors, r *Report) {
	var ctor *ssa.Function
	var obj *ssa.Alloc
	p.EachInstr(func(f *ssa.Function, in ssa.Instruction) {
		if al, ok := in.(*ssa.Alloc); ok {
			if pt, ok := al.Type().(*types.Pointer); ok && types.Identical(pt.Elem(), a.TemplateSet) {
				ctor, obj = f, al
			}
		}
	})
	if ctor == nil {
		r.Unk("ctor", "-", "anchor unresolved: constructor of TemplateSet")
		return
	}
	st := a.TemplateSet.Underlying().(*types.Struct)
	for i := 0; i < st.NumFields(); i++ {
		fld := st.Field(i)
		switch fld.Type().Underlying().(type) {
		case *types.Map, *types.Pointer:
		default:
			continue
		}
		vals := p.fieldStores([]*ssa.Alloc{obj}, i)
		key := p.FuncName(ctor) + ":" + fld.Name()
		if len(vals) == 0 {
			r.Bad(key, p.Pos(ctor.Pos()), "the constructor leaves %s nil (writes to it would panic or a shared default would be used)", fld.Name())
			continue
		}
		ok := true
		for _, v := range vals {
			if !allFresh(p.Roots(v)) {
				ok = false
				r.Bad(key, p.Pos(v.Pos()), "field %s of a new set is initialised with shared memory (%s): two sets influence one another", fld.Name(), rootsString(p.Roots(v)))
			}
		}
		if ok {
			r.OK(key, p.Pos(ctor.Pos()), "field %s gets a freshly allocated object per set", fld.Name())
		}
	}
	// Template.Options
	if a.NewTemplate != nil {
		var tobj *ssa.Alloc
		for _, b := range a.NewTemplate.Blocks {
			for _, in := range b.Instrs {
				if al, ok := in.(*ssa.Alloc); ok {
					if pt, ok := al.Type().(*types.Pointer); ok && types.Identical(pt.Elem(), a.Template) {
						tobj = al
					}
				}
			}
		}
		tst := a.Template.Underlying().(*types.Struct)
		for i := 0; i < tst.NumFields(); i++ {
			fld := tst.Field(i)
			if _, isPtr := fld.Type().Underlying().(*types.Pointer); !isPtr && !isMapType(fld.Type()) {
				continue
			}
			if fld.Name() == "set" || fld.Name() == "parent" || fld.Name() == "child" || fld.Name() == "parser" || fld.Name() == "root" {
				continue
			}
			vals := p.fieldStores([]*ssa.Alloc{tobj}, i)
			key := p.FuncName(a.NewTemplate) + ":Template." + fld.Name()
			if len(vals) == 0 {
				r.Bad(key, p.Pos(a.NewTemplate.Pos()), "new templates leave %s nil", fld.Name())
				continue
			}
			ok := true
			for _, v := range vals {
				if !allFresh(p.Roots(v)) {
					ok = false
					r.Bad(key, p.Pos(v.Pos()), "Template.%s aliases shared memory (%s): changing one template's or the set's %s changes the other", fld.Name(), rootsString(p.Roots(v)), fld.Name())
				}
			}
			if ok {
				r.OK(key, p.Pos(a.NewTemplate.Pos()), "Template.%s is a fresh object per template", fld.Name())
			}
		}
	}
	// no package-level map is written outside the registry API / init
	for _, f := range p.Funcs {
		for _, e := range p.directEffects(f) {
			if e.Target.Type != "<global>" {
				continue
			}
			name := p.FuncName(f)
			top := name
			if i := strings.Index(top, "$"); i >= 0 {
				top = top[:i]
			}
			key := name + ":global:" + e.Target.Field
			switch {
			case top == "init" || strings.HasPrefix(top, "init#"):
				r.Trivial(key, p.InstrPos(e.Instr), "package initialisation")
			case strings.HasPrefix(top, "Register") || strings.HasPrefix(top, "Replace") || top == "SetAutoescape":
				r.OK(key, p.InstrPos(e.Instr), "documented set-up API %s", top)
			default:
				r.Bad(key, p.InstrPos(e.Instr), "%s writes package-level state %s, shared by all sets", name, e.Target.Field)
			}
		}
	}
}

func isMapType(T types.Type) bool {
	_, ok := T.Underlying().(*types.Map)
	return ok
}

var _ = token.NoPos

// ruleLockPairing: every Lock of the cache mutex is released on every exit. Returns the locking functions.
func ruleLockPairing(p *Prog, ca *cacheAnchors, r *Report, rule string) []*ssa.Function {
	// ---- R-C20-PAIR
	r.Begin(rule, "every Lock of the cache mutex is released on every exit (defer or all paths)", 2)
	var lockers []*ssa.Function
	for _, f := range p.Funcs {
		ops := p.lockOps(f)
		var mine []lockOp
		for _, op := range ops {
			if op.Field == ca.mutexField {
				mine = append(mine, op)
			}
		}
		if len(mine) == 0 {
			continue
		}
		for _, op := range mine {
			if !op.Lock {
				continue
			}
			lockers = append(lockers, f)
			key := p.FuncName(f) + ":Lock"
			pos := p.InstrPos(op.In)
			// deferred unlock dominated by... any deferred unlock executed after the lock on all paths, or explicit
			okAll, off := AllExitsPass(op.In, func(x ssa.Instruction) bool {
				o, isOp := findOp(mine, x)
				return isOp && !o.Lock
			})
			if okAll {
				r.OK(key, pos, "released on every path to a return (defer or explicit Unlock)")
			} else {
				r.Bad(key, pos, "a return at %s is reachable with the mutex still held (no Unlock/defer on that path): every later FromCache/CleanCache blocks forever", p.InstrPos(off))
			}
			// a deferred unlock registered BEFORE the lock would also satisfy AllExitsPass only if after; ok.
			// … and when the critical section runs code that can panic beyond the engine's control — a template is
			// loaded and compiled in it: loaders, registered tag parsers and filters — the release is deferred: an
			// explicit Unlock is skipped by a panic, and a caller that recovers finds the cache locked for ever.
			held := p.heldAt(f, ca.mutexField)
			foreign := ssa.Instruction(nil)
			for _, b := range f.Blocks {
				for _, in := range b.Instrs {
					ci, isCall := in.(ssa.CallInstruction)
					if !isCall || !held(in) {
						continue
					}
					if _, isDefer := in.(*ssa.Defer); isDefer {
						continue
					}
					var roots []*ssa.Function
					for _, c := range p.Callees(p.CG, ci) {
						if p.InPkg(c) {
							roots = append(roots, c)
						}
					}
					if len(roots) == 0 {
						continue
					}
					for g := range p.Reach(p.CG, roots, nil) {
						if g.Blocks == nil {
							continue
						}
						for _, gb := range g.Blocks {
							for _, gi := range gb.Instrs {
								if c, ok := gi.(*ssa.Call); ok && c.Common().IsInvoke() && foreign == nil {
									if it, isI := c.Common().Value.Type().Underlying().(*types.Interface); isI && it.NumMethods() > 0 {
										if nt, isN := c.Common().Value.Type().(*types.Named); isN && nt.Obj().Name() == "TemplateLoader" {
											foreign = in
										}
									}
								}
							}
						}
					}
				}
			}
			if foreign != nil {
				deferred := false
				for _, o := range mine {
					if !o.Lock && o.Deferred {
						deferred = true
					}
				}
				dkey := p.FuncName(f) + ":Lock:panic-safe"
				if deferred {
					r.OK(dkey, pos, "the critical section loads a template (loader code runs in it); the release is deferred")
				} else {
					r.Bad(dkey, pos, "the critical section loads and compiles a template (call at %s: loaders, registered tag parsers and filters run with the mutex held) but the mutex is released by explicit Unlock calls only: a panic in that code — which a caller may recover from — leaves the cache locked, and every later FromCache/CleanCache of the set blocks for ever", p.InstrPos(foreign))
				}
			}
		}
	}

	return lockers
}

// ruleLockReentry: no call path from inside the critical section reaches another Lock of the same mutex.
func ruleLockReentry(p *Prog, ca *cacheAnchors, lockers []*ssa.Function, r *Report, rule string) {
	// ---- R-C20-REENTRY
	r.Begin(rule, "no call path from inside the critical section reaches another Lock of the same mutex (self-deadlock)", 1)
	lockerSet := map[*ssa.Function]bool{}
	for _, f := range lockers {
		lockerSet[f] = true
	}
	for _, f := range lockers {
		held := p.heldAt(f, ca.mutexField)
		for _, b := range f.Blocks {
			for _, in := range b.Instrs {
				ci, ok := in.(ssa.CallInstruction)
				if !ok || !held(in) {
					continue
				}
				if _, isDefer := in.(*ssa.Defer); isDefer {
					continue
				}
				callees := p.Callees(p.CG, ci)
				var roots []*ssa.Function
				for _, c := range callees {
					if p.InPkg(c) {
						roots = append(roots, c)
					}
				}
				if len(roots) == 0 {
					continue
				}
				reach := p.Reach(p.CG, roots, nil)
				hit := ""
				for lf := range lockerSet {
					if reach[lf] {
						hit = p.FuncName(lf)
					}
				}
				key := p.FuncName(f) + ":call:" + p.calleeName(ci.Common())
				if hit != "" {
					r.Bad(key, p.InstrPos(in), "called while %s is held and reaches %s, which locks the same (non-reentrant) mutex: self-deadlock", ca.mutexField, hit)
				} else {
					r.OK(key, p.InstrPos(in), "callees reach %d package functions, none locks %s", countPkg(p, reach), ca.mutexField)
				}
			}
		}
	}

}

// ruleC20Clean: the function that empties the cache does so for the names it is given (or for everything) whatever
// state the set is in: it clears the whole map exactly on the "no names" edge, deletes inside a loop over its
// parameter, and none of its branch conditions reads other set state (Debug, options …).
func ruleC20Clean(p *Prog, a *Anchors, ca *cacheAnchors, r *Report) {
	r.Begin("R-C20-CLEAN", "CleanCache removes what it names (or everything when given no name) unconditionally: no branch of it depends on set state other than its arguments", 3)
	var cleaners []*ssa.Function
	for _, f := range p.Methods(a.TemplateSet) {
		if f.Object() == nil || !f.Object().Exported() {
			continue
		}
		for _, acc := range cacheAccesses(p, f, ca.cacheField) {
			if acc.Kind == "delete" || acc.Kind == "clear" {
				cleaners = append(cleaners, f)
				break
			}
		}
	}
	if len(cleaners) != 1 {
		r.Unk("cleaner", "-", "expected exactly one exported method of TemplateSet that deletes cache entries, found %d", len(cleaners))
		return
	}
	f := cleaners[0]
	name := p.FuncName(f)
	var names *ssa.Parameter
	for _, pa := range f.Params {
		if sl, ok := pa.Type().Underlying().(*types.Slice); ok && types.Identical(sl.Elem(), types.Typ[types.String]) {
			names = pa
		}
	}
	if names == nil {
		r.Unk(name+":names", p.Pos(f.Pos()), "no []string parameter")
		return
	}
	// (a) clear-all on the len(names) == 0 edge only, and present
	clearAll := false
	for _, acc := range cacheAccesses(p, f, ca.cacheField) {
		isClear := acc.Kind == "clear"
		if acc.Kind == "assign" {
			if _, ok := acc.Val.(*ssa.MakeMap); ok {
				isClear = true
			}
		}
		if !isClear {
			continue
		}
		g := Guarded(acc.In, func(c ssa.Value, pol bool) bool {
			b, ok := c.(*ssa.BinOp)
			if !ok {
				return false
			}
			k, isC := constInt(b.Y)
			if !isC || k != 0 || lenOperand(b.X) != ssa.Value(names) {
				return false
			}
			return (b.Op == token.EQL && pol) || (b.Op == token.NEQ && !pol) || (b.Op == token.GTR && !pol)
		})
		if g {
			clearAll = true
			r.OK(name+":clear-all", p.InstrPos(acc.In), "the whole cache is dropped exactly when no name is given")
		} else {
			r.Bad(name+":clear-all", p.InstrPos(acc.In), "the whole cache is dropped on an edge other than len(names) == 0")
		}
	}
	if !clearAll {
		r.Bad(name+":clear-all", p.Pos(f.Pos()), "CleanCache() without names no longer empties the cache")
	}
	// (b) delete of each named entry: inside a loop indexed over the names parameter
	del := false
	for _, acc := range cacheAccesses(p, f, ca.cacheField) {
		if acc.Kind != "delete" {
			continue
		}
		del = true
		fromNames := false
		var walk func(v ssa.Value, d int)
		seen := map[ssa.Value]bool{}
		walk = func(v ssa.Value, d int) {
			if v == nil || d > 6 || seen[v] {
				return
			}
			seen[v] = true
			switch x := v.(type) {
			case *ssa.Call:
				for _, a := range x.Common().Args {
					walk(a, d+1)
				}
			case *ssa.UnOp:
				walk(x.X, d+1)
			case *ssa.IndexAddr:
				if x.X == ssa.Value(names) {
					fromNames = true
				}
			case *ssa.Phi:
				for _, e := range x.Edges {
					walk(e, d+1)
				}
			}
		}
		walk(acc.Key, 0)
		if fromNames {
			r.OK(name+":delete-named", p.InstrPos(acc.In), "deletes the entry of each given name")
		} else {
			r.Bad(name+":delete-named", p.InstrPos(acc.In), "the deleted key %s is not derived from an element of the names parameter", p.VN(acc.Key))
		}
	}
	if !del {
		r.Bad(name+":delete-named", p.Pos(f.Pos()), "no delete of named entries")
	}
	// (c) no branch on other set state
	bad := 0
	for _, b := range f.Blocks {
		iff, ok := b.Instrs[len(b.Instrs)-1].(*ssa.If)
		if !ok {
			continue
		}
		var fieldsRead []string
		var walk func(v ssa.Value, d int)
		seen := map[ssa.Value]bool{}
		walk = func(v ssa.Value, d int) {
			if v == nil || d > 5 || seen[v] {
				return
			}
			seen[v] = true
			if _, n, fld := fieldLoadBase(v); n != nil && n.Obj().Name() == "TemplateSet" && fld != ca.cacheField {
				fieldsRead = append(fieldsRead, fld)
			}
			switch x := v.(type) {
			case *ssa.BinOp:
				walk(x.X, d+1)
				walk(x.Y, d+1)
			case *ssa.UnOp:
				walk(x.X, d+1)
			case *ssa.Call:
				for _, a := range callArgs(x.Common()) {
					walk(a, d+1)
				}
			case *ssa.Phi:
				for _, e := range x.Edges {
					walk(e, d+1)
				}
			}
		}
		walk(iff.Cond, 0)
		if len(fieldsRead) > 0 {
			bad++
			r.Bad(name+":unconditional", p.InstrPos(iff), "a branch of CleanCache depends on set state %v: under that state a requested clean-up is skipped and stale entries survive it", fieldsRead)
		}
	}
	if bad == 0 {
		r.OK(name+":unconditional", p.Pos(f.Pos()), "branches depend only on the arguments")
	}
}

// ruleC20SameLoad: whether the cache is used (Debug) decides only if the result is remembered, not what is loaded:
// every FromFile call of the cache entry point is handed the same value — the name the caller gave — and not the
// cache key, which is the name as resolved by the first loader only.
func ruleC20SameLoad(p *Prog, a *Anchors, ca *cacheAnchors, r *Report) {
	r.Begin("R-C20-SAMELOAD", "the caching entry point loads by the name it was given on every path (debug and cache miss alike); the normalised cache key is never what is handed to the loaders", 2)
	// the entry point: the exported method that looks up and fills the cache — itself, or through one unexported
	// helper method it calls (the locked lookup-or-load extracted)
	entries := u7CacheEntries(p, a, ca)
	if len(entries) == 0 {
		r.Unk("entry", "-", "no exported method of TemplateSet both looks up and fills the cache")
		return
	}
	for _, e := range entries {
		entry := e.entry
		var nameParam *ssa.Parameter
		for _, pa := range entry.Params {
			if b, ok := pa.Type().Underlying().(*types.Basic); ok && b.Kind() == types.String {
				nameParam = pa
			}
		}
		fns := withClosures(entry)
		if e.helper != nil {
			fns = append(fns, withClosures(e.helper)...)
		}
		cnt := 0
		for _, fn := range fns {
			for _, c := range callsTo(fn, ca.fromFile) {
				cnt++
				arg := c.Common().Args[1]
				key := p.FuncName(entry) + ":load"
				if cnt > 1 {
					key += "#" + strconv.Itoa(cnt)
				}
				v := arg
				if u, ok := v.(*ssa.UnOp); ok {
					if sv := localLoadValue(u); sv != nil {
						v = sv
					}
				}
				// a name that is a parameter of the helper is what the entry point passes for it
				vals, related, why := u7LoadedName(p, e, entries, v)
				if !related {
					r.Bad(key, p.InstrPos(c.(ssa.Instruction)), "FromFile is handed %s, which cannot be related to the name the caller gave: %s", p.VN(arg), why)
					continue
				}
				good := nameParam != nil
				for _, w := range vals {
					if nameParam == nil || !(w == ssa.Value(nameParam) || p.VN(w) == p.VN(nameParam)) {
						good = false
						if w != v {
							arg = w // what the entry point passes for the helper's parameter
						}
					}
				}
				if good {
					r.OK(key, p.InstrPos(c.(ssa.Instruction)), "loads the name the caller gave")
				} else {
					r.Bad(key, p.InstrPos(c.(ssa.Instruction)), "FromFile is handed %s, not the name the caller gave: the loaders are asked for a name that went through the first loader's resolution already (a template that only a later loader has is never found unless Debug is on)", p.VN(arg))
				}
			}
		}
		if cnt == 0 {
			r.Unk(p.FuncName(entry)+":load", p.Pos(entry.Pos()), "the cache entry point does not call FromFile")
		}
	}
}
