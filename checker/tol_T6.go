package main

// tol_T6.go — R-C12-VALID / R-C12-IDENT: the regular-expression test of the context-key validator may sit in a small
// bool predicate of the validator's cluster (`isValidContextKey(k)`, `invalidKey(k)`, …) instead of in the validator
// itself. A "match signal" relates a boolean value of a function to the MatchString call it stands for.

import (
	"go/types"

	"golang.org/x/tools/go/ssa"
)

// matchSignal: a boolean value v of function fn with the guarantee "the subject does not match the pattern ⇒ v (when
// it is computed at all) has the value mismatchVal". The base case is the MatchString call itself (mismatchVal false);
// the call of a predicate whose result is determined by such a call on the mismatch side is one, too.
type matchSignal struct {
	v           ssa.Value
	mismatchVal bool
	subject     ssa.Value       // the string that is matched, as seen in the function v lives in
	match       *ssa.Call       // the underlying MatchString call
	via         []*ssa.Function // predicates passed through (outermost first); empty for the call itself
}

// matchSignals lists the match signals among the calls of f: MatchString calls (as recognised by isMatch) and, up to
// `depth` levels, calls of bool predicates of the package that wrap one.
func matchSignals(p *Prog, f *ssa.Function, isMatch func(*ssa.Call) bool, depth int) []matchSignal {
	var out []matchSignal
	for _, b := range f.Blocks {
		for _, in := range b.Instrs {
			c, ok := in.(*ssa.Call)
			if !ok {
				continue
			}
			if isMatch(c) {
				var subj ssa.Value
				if args := c.Common().Args; len(args) > 0 {
					subj = args[len(args)-1]
				}
				out = append(out, matchSignal{v: c, mismatchVal: false, subject: subj, match: c})
				continue
			}
			h := c.Common().StaticCallee()
			if depth <= 0 || h == nil || h == f || !p.InPkg(h) || h.Blocks == nil || !returnsOneBool(h) {
				continue
			}
			for _, ps := range predicateMismatch(p, h, isMatch, depth-1) {
				// the predicate tests one of its parameters: what is handed in for it is the subject here
				pa, isParam := stripLoad(ps.subject).(*ssa.Parameter)
				if !isParam || pa.Parent() != h {
					continue
				}
				args := callArgs(c.Common())
				idx := -1
				for i, q := range h.Params {
					if q == pa {
						idx = i
					}
				}
				if idx < 0 || idx >= len(args) {
					continue
				}
				out = append(out, matchSignal{v: c, mismatchVal: ps.mismatchVal, subject: args[idx], match: ps.match, via: append([]*ssa.Function{h}, ps.via...)})
			}
		}
	}
	return out
}

func returnsOneBool(f *ssa.Function) bool {
	rs := f.Signature.Results()
	if rs.Len() != 1 {
		return false
	}
	bt, ok := rs.At(0).Type().Underlying().(*types.Basic)
	return ok && bt.Info()&types.IsBoolean != 0
}

// predicateMismatch: for bool function h, the signals of h that fix h's RESULT on the mismatch side. Returned with
// v == nil and mismatchVal = the result h has whenever the subject does not match. Decided per Return by the
// contrapositive: a Return can only yield the other value when the signal says "matched" — the returned value is the
// signal (possibly negated), a short-circuit expression one of whose necessary operands is the signal, the other
// constant, or the Return is only reached over the signal's "matched" edge.
func predicateMismatch(p *Prog, h *ssa.Function, isMatch func(*ssa.Call) bool, depth int) []matchSignal {
	var out []matchSignal
	rets := returnsOf(h)
	if len(rets) == 0 {
		return nil
	}
	for _, s := range matchSignals(p, h, isMatch, depth) {
		matched := func(c ssa.Value, pol bool) bool { return c == s.v && pol == !s.mismatchVal }
		for _, mvOut := range []bool{false, true} {
			all := true
			for _, ret := range rets {
				if len(ret.Results) != 1 || !returnImpliesMatched(ret, !mvOut, matched) {
					all = false
					break
				}
			}
			if all {
				out = append(out, matchSignal{mismatchVal: mvOut, subject: s.subject, match: s.match, via: s.via})
				break
			}
		}
	}
	return out
}

// returnImpliesMatched: whenever ret returns the boolean `val`, an edge/operand satisfying `matched` was taken.
func returnImpliesMatched(ret *ssa.Return, val bool, matched EdgePred) bool {
	rv := res(ret, 0)
	if k, isC := constBool(rv); isC {
		if k != val {
			return true // this Return never yields val
		}
		return Guarded(ret, matched)
	}
	nc, np := normCond(rv, val) // rv == val  <=>  nc == np
	if matched(nc, np) {
		return true
	}
	for _, cj := range expandShortCircuit(nc, np, 0) {
		if matched(cj.c, cj.pol) {
			return true
		}
	}
	return Guarded(ret, matched)
}

// mismatchEdgeIsError: in the validator `check`, some branch tests a match signal that comes through a predicate and
// the successor taken when the key does not match returns a non-nil error on every path (`if !valid(k) { return err }`
// as well as `if valid(k) { continue }; return err`).
func mismatchEdgeIsError(p *Prog, check *ssa.Function, isMatch func(*ssa.Call) bool) bool {
	for _, s := range matchSignals(p, check, isMatch, 2) {
		if len(s.via) == 0 {
			continue // the direct shape is judged by the rule itself
		}
		for _, b := range check.Blocks {
			if len(b.Instrs) == 0 || len(b.Succs) != 2 || b.Succs[0] == b.Succs[1] {
				continue
			}
			iff, ok := b.Instrs[len(b.Instrs)-1].(*ssa.If)
			if !ok {
				continue
			}
			nc, np := normCond(iff.Cond, true) // cond true  <=>  nc == np
			if nc != s.v {
				continue
			}
			idx := 1
			if s.mismatchVal == np {
				idx = 0
			}
			if errorReturnsOnly(check, b.Succs[idx]) {
				return true
			}
		}
	}
	return false
}

// predicatePattern: the constant regular expression matched in a predicate the validator calls (when the validator
// has no MatchString call of its own), and the predicates it was found through. Empty when there is none or when
// different predicates match different patterns.
func predicatePattern(p *Prog, check *ssa.Function) (string, []*ssa.Function) {
	isMatch := func(c *ssa.Call) bool {
		return c.Common().StaticCallee() != nil && p.extName(c.Common().StaticCallee()) == "(*regexp.Regexp).MatchString"
	}
	pat := ""
	var via []*ssa.Function
	for _, s := range matchSignals(p, check, isMatch, 2) {
		if len(s.via) == 0 {
			continue
		}
		u, ok := s.match.Common().Args[0].(*ssa.UnOp)
		if !ok {
			return "", nil
		}
		g, ok := u.X.(*ssa.Global)
		if !ok {
			return "", nil
		}
		ic := globalInitCall(p, g)
		if ic == nil {
			return "", nil
		}
		sp, _ := constString(ic.Common().Args[0])
		if sp == "" || (pat != "" && sp != pat) {
			return "", nil
		}
		pat = sp
		via = append(via, s.via...)
	}
	return pat, via
}
