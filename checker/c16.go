package main

// C16 — diagnostics: R-C16-FILE, PAIR, EXECFILE, TOKPOS, NL.

import (
	"go/token"
	"go/types"
	"strings"

	"golang.org/x/tools/go/ssa"
)

func init() { register("C16", checkC16) }

func checkC16(p *Prog, r *Report) {
	a := ResolveAnchors(p)
	if !anchorCheck(a, r) {
		return
	}
	ruleC16File(p, a, r)
	ruleC16Pair(p, a, r)
	ruleC16ExecFile(p, a, r)
	ruleC16TokenPos(p, a, r)
	ruleC16Newline(p, a, r)
	ruleC16ArgPos(p, a, r)
	ruleC16Foreign(p, a, r)
	ruleC16Cross(p, a, r)
}

// R-C16-EXECFILE: the constructor of execution errors names the template the reported token belongs to.
func ruleC16ExecFile(p *Prog, a *Anchors, r *Report) {
	r.Begin("R-C16-EXECFILE", "execution errors built from a token take their Filename from that token (the template that contains the position), falling back to the executing template only without a token", 1)
	n := 0
	fi := fieldIndex(a.Error, "Filename")
	for _, f := range p.Methods(a.ExecCtx) {
		tokParam := paramOfType(f, types.NewPointer(a.Token))
		if tokParam == nil || f.Signature.Results().Len() != 1 || f.Blocks == nil {
			continue
		}
		allocs := errorAllocs(a, f)
		fromTok := 0
		for _, al := range allocs {
			if !builtWithoutTokenT5(al, tokParam) {
				fromTok++
			}
		}
		for _, al := range allocs {
			n++
			key := p.FuncName(f) + ":Filename"
			vals := p.fieldStores([]*ssa.Alloc{al}, fi)
			if fromTok > 0 && fromTok < len(allocs) && len(vals) > 0 && builtWithoutTokenT5(al, tokParam) {
				// `if token == nil { return &Error{Filename: <executing template>} }`: the literal of the token-less
				// case; the one built when a token is given is judged below
				r.OK(key, p.InstrPos(al), "built only when no token is given: Filename falls back to %s", p.VN(vals[0]))
				continue
			}
			ok := false
			for _, v := range vals {
				toks, _ := tokenOfFieldLoad(p, v, "Filename", 0)
				for _, tk := range toks {
					if tk == p.VN(tokParam) {
						ok = true
					}
				}
			}
			if ok {
				r.OK(key, p.InstrPos(al), "Filename comes from token.Filename when a token is given")
			} else {
				r.Bad(key, p.InstrPos(al), "the execution error's Filename never comes from the reported token: an error inside an extended/imported template is reported under another template's name, so its line/column point into the wrong source")
			}
		}
	}
	if n == 0 {
		r.Unk("constructor", "-", "no ExecutionContext method builds an Error from a token (anchor unresolved)")
	}
	// … and the token is handed to that constructor, not attached afterwards: an error built without a token names the
	// EXECUTING template; completing it later with the token of a node defined elsewhere (an imported macro) gives
	// `in main.tpl | Line 6 Col 12` for a position of lib.tpl
	upd := p.Method("Error", "updateFromTokenIfNeeded")
	for _, f := range p.inPkgFuncsSorted(p.allFuncSet()) {
		for _, b := range f.Blocks {
			for _, in := range b.Instrs {
				c, ok := in.(*ssa.Call)
				if !ok || upd == nil || c.Common().StaticCallee() != upd {
					continue
				}
				src, ok := c.Common().Args[0].(*ssa.Call)
				if !ok || src.Common().StaticCallee() == nil {
					continue
				}
				mk := src.Common().StaticCallee()
				if recv := mk.Signature.Recv(); recv == nil || structOf(recv.Type()) == nil || structOf(recv.Type()).Obj().Name() != "ExecutionContext" {
					continue
				}
				tokArg := ssa.Value(nil)
				for i, pa := range mk.Params {
					if pt, isP := pa.Type().(*types.Pointer); isP && types.Identical(pt.Elem(), a.Token) && i < len(src.Common().Args) {
						tokArg = src.Common().Args[i]
					}
				}
				key := p.FuncName(f) + ":late-token"
				if tokArg != nil && isNilConst(tokArg) {
					r.Bad(key, p.InstrPos(in), "an execution error is built without a token (Filename = the executing template) and given the position of %s afterwards: for a node defined in another template (imported macro, block of a parent) file name and line/column belong to different sources", p.VN(c.Common().Args[len(c.Common().Args)-1]))
				} else {
					r.OK(key, p.InstrPos(in), "the error being completed was built with its own token")
				}
			}
		}
	}
	// compile side: Parser.Error without a token falls back to the parser's remembered last token (for an argument
	// parser without tokens that is the tag's name), so that the error of `{% now %}` carries a position in ITS template
	// and is not given one of an including template later
	if pe := p.Method("Parser", "Error"); pe != nil {
		tokParam := paramOfType(pe, types.NewPointer(a.Token))
		found := false
		for _, b := range pe.Blocks {
			for _, in := range b.Instrs {
				if u, ok := in.(*ssa.UnOp); ok && u.Op == token.MUL {
					if fa, isFA := u.X.(*ssa.FieldAddr); isFA {
						if n := structOf(fa.X.Type()); n != nil && n.Obj().Name() == "Parser" {
							if pt, isP := u.Type().(*types.Pointer); isP && types.Identical(pt.Elem(), a.Token) {
								found = true
							}
						}
					}
				}
			}
		}
		if !found {
			// the choice of the fallback token may live in a helper (errorToken()): what counts is that the remembered
			// token can become the Token of the Error built here
			found = parserFallbackFlowsT5(p, a, pe)
		}
		switch {
		case tokParam == nil:
			r.Unk("(*Parser).Error:fallback", p.Pos(pe.Pos()), "Parser.Error has no token parameter")
		case found:
			r.OK("(*Parser).Error:fallback", p.Pos(pe.Pos()), "without a token the error falls back (also) to the token the parser remembers")
		default:
			r.Bad("(*Parser).Error:fallback", p.Pos(pe.Pos()), "Parser.Error(msg, nil) of a parser without tokens yields an error without position although the parser remembers the tag's name token: {%% now %%} in an included template is reported at a line/column of the including template")
		}
	}
}

// errorAllocs lists the allocations of Error objects in f.
func errorAllocs(a *Anchors, f *ssa.Function) []*ssa.Alloc {
	var out []*ssa.Alloc
	for _, b := range f.Blocks {
		for _, in := range b.Instrs {
			if al, ok := in.(*ssa.Alloc); ok {
				if pt, ok := al.Type().(*types.Pointer); ok && types.Identical(pt.Elem(), a.Error) {
					out = append(out, al)
				}
			}
		}
	}
	return out
}

func fieldIndex(n *types.Named, name string) int {
	st := n.Underlying().(*types.Struct)
	for i := 0; i < st.NumFields(); i++ {
		if st.Field(i).Name() == name {
			return i
		}
	}
	return -1
}

func ruleC16File(p *Prog, a *Anchors, r *Report) {
	r.Begin("R-C16-FILE", "every Error constructed by compile-time code names its template: the Filename field is set to a non-empty value", 4)
	compile := a.CompileReach()
	exec := a.ExecReach()
	fi := fieldIndex(a.Error, "Filename")
	for _, f := range p.inPkgFuncsSorted(compile) {
		if !compileSideT5(p, f, compile, exec, 0) {
			continue // reached at execution too (e.g. FromFile via lazy include is still a compile step: handled below)
		}
		for _, al := range errorAllocs(a, f) {
			key := p.FuncName(f) + ":&Error{}"
			vals := p.fieldStores([]*ssa.Alloc{al}, fi)
			if sites := ctorSitesT5(p, f, al); sites != nil {
				// a constructor function (fromFileError(filename, err)): every call of it constructs an Error, with
				// the Filename that call passes
				for _, site := range sites {
					skey := p.FuncName(site.Parent()) + ":&Error{}"
					ok := len(vals) > 0
					for _, v := range vals {
						if mayBeEmptyAtSiteT5(v, site, 0) {
							ok = false
						}
					}
					if ok {
						r.OK(skey, p.InstrPos(site), "Filename = %s (built by %s)", p.VN(atSiteT5(vals[0], site)), p.FuncName(f))
					} else {
						r.Bad(skey, p.InstrPos(site), "a compile error is constructed without a Filename: the error does not name the template it occurred in")
					}
				}
				continue
			}
			ok := len(vals) > 0
			for _, v := range vals {
				if mayBeEmptyConst(v, 0) {
					ok = false
				}
			}
			if ok {
				r.OK(key, p.InstrPos(al), "Filename = %s", p.VN(vals[0]))
			} else {
				r.Bad(key, p.InstrPos(al), "a compile error is constructed without a Filename: the error does not name the template it occurred in")
			}
		}
	}
}

// mayBeEmptyConst: on some path the value is the constant "" (directly, through a phi or a local variable that keeps
// its zero value).
func mayBeEmptyConst(v ssa.Value, depth int) bool {
	if depth > 6 {
		return false
	}
	switch x := v.(type) {
	case *ssa.Const:
		s, isC := constString(x)
		return isC && s == ""
	case *ssa.Phi:
		for _, e := range x.Edges {
			if mayBeEmptyConst(e, depth+1) {
				return true
			}
		}
	case *ssa.UnOp:
		if sv := localLoadValue(x); sv != nil {
			return mayBeEmptyConst(sv, depth+1)
		}
	}
	return false
}

// compileOnlyByName: functions that belong to the compile side although the call graph also reaches them from
// execution (lazy include compiles at run time): methods of TemplateSet and the tag parsers.
func compileOnlyByName(p *Prog, f *ssa.Function) bool {
	top := topLevel(f)
	if top.Signature.Recv() != nil {
		if n := structOf(top.Signature.Recv().Type()); n != nil && (n.Obj().Name() == "TemplateSet" || n.Obj().Name() == "Parser" || n.Obj().Name() == "lexer") {
			return true
		}
	}
	return strings.HasPrefix(top.Name(), "tag") && strings.HasSuffix(top.Name(), "Parser") || top.Name() == "lex" || top.Name() == "newTemplate"
}

// tokenOfFieldLoad: v loads field `field` of a Token value T (possibly behind phis with constants / local cells);
// returns the VN keys of the token values found and whether every non-constant source is such a load.
func tokenOfFieldLoad(p *Prog, v ssa.Value, field string, depth int) (toks []string, pure bool) {
	pure = true
	if depth > 8 {
		return nil, false
	}
	switch x := v.(type) {
	case *ssa.Const:
		return nil, true
	case *ssa.Phi:
		for _, e := range x.Edges {
			t, pu := tokenOfFieldLoad(p, e, field, depth+1)
			toks = append(toks, t...)
			pure = pure && pu
		}
		return
	case *ssa.UnOp:
		if base, n, fld := fieldLoadBase(x); n != nil && n.Obj().Name() == "Token" && fld == field {
			return []string{p.VN(base)}, true
		}
		if cells := p.cellsOf(x.X, 0); len(cells) > 0 {
			for _, c := range cells {
				for _, s := range p.cellStores[c] {
					t, pu := tokenOfFieldLoad(p, s, field, depth+1)
					toks = append(toks, t...)
					pure = pure && pu
				}
			}
			return
		}
	}
	return nil, false
}

func ruleC16Pair(p *Prog, a *Anchors, r *Report) {
	r.Begin("R-C16-PAIR", "wherever an Error's Line and Column are set they come from the Line and Col of the SAME token (and Error.Token, when set, is that token; an execution error takes its Filename from that token too)", 3)
	type posStore struct {
		line, col, tok, file *ssa.Store
		toks                 []*ssa.Store // every store of Token into this error
	}
	for _, f := range p.Funcs {
		// group stores by base object VN
		groups := map[string]*posStore{}
		var order []string
		for _, b := range f.Blocks {
			for _, in := range b.Instrs {
				st, ok := in.(*ssa.Store)
				if !ok {
					continue
				}
				fa, ok := st.Addr.(*ssa.FieldAddr)
				if !ok {
					continue
				}
				n := structOf(fa.X.Type())
				if n == nil || n.Obj().Name() != "Error" {
					continue
				}
				k := p.VN(fa.X)
				g := groups[k]
				if g == nil {
					g = &posStore{}
					groups[k] = g
					order = append(order, k)
				}
				switch fieldName(fa.X.Type(), fa.Field) {
				case "Line":
					g.line = st
				case "Column":
					g.col = st
				case "Token":
					// (the one in the block of the Line store is "the" token store of the group)
					if g.tok == nil || (g.line != nil && st.Block() == g.line.Block()) {
						g.tok = st
					}
					g.toks = append(g.toks, st)
				case "Filename":
					g.file = st
				}
			}
		}
		for _, k := range order {
			g := groups[k]
			if g.line == nil && g.col == nil {
				continue
			}
			// stores in a setter that only the completing method calls are that method's
			ownerFn := pairOwnerT5(p, f, firstNonNil(g.line, g.col).(*ssa.Store).Addr.(*ssa.FieldAddr).X)
			owner := p.FuncName(ownerFn)
			key := owner + ":position"
			if g.line == nil || g.col == nil {
				r.Bad(key, p.InstrPos(firstNonNil(g.line, g.col)), "only one of Line/Column is set")
				continue
			}
			lt, lp := tokenOfFieldLoad(p, g.line.Val, "Line", 0)
			ct, cp := tokenOfFieldLoad(p, g.col.Val, "Col", 0)
			switch {
			case !lp || len(lt) == 0:
				r.Bad(key, p.InstrPos(g.line), "Error.Line is set from %s, not from a token's Line", p.VN(g.line.Val))
			case !cp || len(ct) == 0:
				r.Bad(key, p.InstrPos(g.col), "Error.Column is set from %s, not from a token's Col (e.g. Column: token.Line)", p.VN(g.col.Val))
			case !sameSet(lt, ct):
				r.Bad(key, p.InstrPos(g.col), "Line comes from token %v but Column from token %v", lt, ct)
			default:
				okTok := true
				if g.tok != nil {
					// Token field must be (a phi containing) the same token
					tv := p.VN(g.tok.Val)
					match := false
					for _, t := range lt {
						if t == tv {
							match = true
						}
					}
					if phi, ok := g.tok.Val.(*ssa.Phi); ok {
						for _, e := range phi.Edges {
							for _, t := range lt {
								if p.VN(e) == t {
									match = true
								}
							}
						}
						// Line/Col loaded from the phi itself
						for _, t := range lt {
							if t == p.VN(phi) {
								match = true
							}
						}
					}
					okTok = match
				}
				if okTok {
					r.OK(key, p.InstrPos(g.line), "Line/Column (and Token) come from the same token %v", lt)
				} else {
					r.Bad(key, p.InstrPos(g.tok), "Error.Token is %s but Line/Column come from %v", p.VN(g.tok.Val), lt)
				}
			}
			// Token and position are set on the same paths: a Token stored where Line/Column are not (because the
			// error already has a position) pairs the token of one place with the position of another
			freshErr := freshErrorValue(g.line.Addr.(*ssa.FieldAddr).X)
			// every further store of Token into a completed error stands with the position as well
			for _, ts := range g.toks {
				if ts == g.tok || freshErr || ts.Block() == g.line.Block() {
					continue
				}
				post := true
				for _, ret := range returnsOf(f) {
					if !ReachableBlocks(ts.Block())[ret.Block()] {
						continue
					}
					if !MustPassFrom(ts.Block(), indexIn(ts), ret, func(x ssa.Instruction) bool { return x == ssa.Instruction(g.line) }) {
						post = false
					}
				}
				if !post {
					r.Bad(owner+":token-with-position", p.InstrPos(ts), "Error.Token is stored on a path on which Line/Column are not (the error already has a position): the message then reads `Line 2 Col 7 near '<text of a token somewhere else>'`")
				}
			}
			if g.tok != nil && g.tok.Block() != g.line.Block() && !freshErr {
				post := true
				for _, ret := range returnsOf(f) {
					if !ReachableBlocks(g.tok.Block())[ret.Block()] {
						continue
					}
					if !MustPassFrom(g.tok.Block(), indexIn(g.tok), ret, func(x ssa.Instruction) bool { return x == ssa.Instruction(g.line) }) {
						post = false
					}
				}
				if post {
					r.OK(owner+":token-with-position", p.InstrPos(g.tok), "wherever Token is stored, Line/Column are stored too")
				} else {
					r.Bad(owner+":token-with-position", p.InstrPos(g.tok), "Error.Token is stored on a path on which Line/Column are not (the error already has a position): the message then reads `Line 2 Col 7 near '<text of a token somewhere else>'`")
				}
			}
			// completing an existing error (not one built here): the position of token T may only be given to an
			// error that names T's source — its Filename is T.Filename afterwards, on every path
			if !freshErrorValue(g.line.Addr.(*ssa.FieldAddr).X) && len(lt) > 0 {
				fkey := owner + ":position:filename"
				okFile := false
				if g.file != nil {
					ft, _ := tokenOfFieldLoad(p, g.file.Val, "Filename", 0)
					if len(ft) > 0 && overlap(ft, lt) {
						// unconditional on the paths that set the position?
						if g.file.Block() == g.line.Block() {
							okFile = true
						} else {
							okFile = true
							for _, ret := range returnsOf(f) {
								if ReachableBlocks(g.line.Block())[ret.Block()] && !MustPassFrom(g.line.Block(), indexIn(g.line), ret, func(x ssa.Instruction) bool { return x == ssa.Instruction(g.file) }) {
									okFile = false
								}
							}
						}
					}
				}
				if !okFile {
					// or: the position is only given when the error names no source / the same source
					sameSource := func(c ssa.Value, pol bool) bool { return sameSourceAtom(p, c, pol) }
					okFile = Guarded(g.line, sameSource)
					if !okFile && paramIndexT5(f, g.line.Addr.(*ssa.FieldAddr).X) >= 0 {
						// … the test may stand in the method that calls the setter
						okFile = sitesGuardedT5(p, f, sameSource, 0)
					}
				}
				if okFile {
					r.OK(fkey, p.InstrPos(g.line), "the completed error names the source of the token that provides its position")
				} else {
					r.Bad(fkey, p.InstrPos(g.line), "an existing error is given the Line/Column of token %v although its Filename may name another source (it is only filled in when empty): the error of a template that could not be found, or of an included template, then points to a line/column of the INCLUDING template under the included one's name", lt)
				}
			}
			// execution errors: Filename from the same token
			if isExecCtxMethodT5(f) || isExecCtxMethodT5(ownerFn) {
				fkey := owner + ":filename"
				if g.file == nil {
					r.Bad(fkey, p.InstrPos(g.line), "an execution error with a position has no Filename")
					continue
				}
				ft, _ := tokenOfFieldLoad(p, g.file.Val, "Filename", 0)
				if len(ft) > 0 && overlap(ft, lt) {
					r.OK(fkey, p.InstrPos(g.file), "when a token is given, Filename is that token's Filename (the template the position belongs to)")
				} else {
					r.Bad(fkey, p.InstrPos(g.file), "the execution error's Filename (%s) does not come from the token that provides Line/Column: a position inside an extended/imported template is reported under another template's name", p.VN(g.file.Val))
				}
			}
		}
	}
}

func firstNonNil(ss ...*ssa.Store) ssa.Instruction {
	for _, s := range ss {
		if s != nil {
			return s
		}
	}
	return nil
}

func sameSet(a, b []string) bool {
	m := map[string]bool{}
	for _, x := range a {
		m[x] = true
	}
	for _, x := range b {
		if !m[x] {
			return false
		}
	}
	n := map[string]bool{}
	for _, x := range b {
		n[x] = true
	}
	for _, x := range a {
		if !n[x] {
			return false
		}
	}
	return true
}

func overlap(a, b []string) bool {
	for _, x := range a {
		for _, y := range b {
			if x == y {
				return true
			}
		}
	}
	return false
}

// R-C16-TOKPOS: tokens take the START position: Line/Col of every Token the lexer constructs come from the
// fields that ignore() resets from the running position.
func ruleC16TokenPos(p *Prog, a *Anchors, r *Report) {
	r.Begin("R-C16-TOKPOS", "every token the lexer constructs records the position where its text starts (the start-position fields, which emit/ignore reset from the running position), and carries the lexer's template name", 2)
	ign := p.Method("lexer", "ignore")
	if ign == nil {
		r.Unk("anchor", "-", "anchor unresolved: (*lexer).ignore")
		return
	}
	// start fields by role: lexer fields stored in ignore() from other lexer fields
	startOf := map[string]string{} // running field -> start field
	for _, b := range ign.Blocks {
		for _, in := range b.Instrs {
			st, ok := in.(*ssa.Store)
			if !ok {
				continue
			}
			fa, ok := st.Addr.(*ssa.FieldAddr)
			if !ok {
				continue
			}
			dst := fieldName(fa.X.Type(), fa.Field)
			if _, n, src := fieldLoadBase(st.Val); n != nil && n.Obj().Name() == "lexer" {
				startOf[src] = dst
			}
		}
	}
	lineStart, colStart := startOf["line"], startOf["col"]
	if lineStart == "" || colStart == "" {
		r.Unk("start-fields", p.Pos(ign.Pos()), "cannot identify the start-position fields (ignore() should copy line/col into them), got %v", startOf)
		return
	}
	fiLine, fiCol, fiFile := fieldIndex(a.Token, "Line"), fieldIndex(a.Token, "Col"), fieldIndex(a.Token, "Filename")
	n := 0
	for _, f := range p.Funcs {
		recv := topLevel(f).Signature.Recv()
		if recv == nil || structOf(recv.Type()) == nil || structOf(recv.Type()).Obj().Name() != "lexer" {
			continue
		}
		for _, b := range f.Blocks {
			for _, in := range b.Instrs {
				al, ok := in.(*ssa.Alloc)
				if !ok {
					continue
				}
				pt, ok := al.Type().(*types.Pointer)
				if !ok || !types.Identical(pt.Elem(), a.Token) {
					continue
				}
				n++
				key := p.FuncName(f) + ":&Token{}"
				lv, cv, fv := p.fieldStores([]*ssa.Alloc{al}, fiLine), p.fieldStores([]*ssa.Alloc{al}, fiCol), p.fieldStores([]*ssa.Alloc{al}, fiFile)
				okL := len(lv) == 1 && loadsField(lv[0], "lexer", lineStart)
				okC := len(cv) == 1 && loadsField(cv[0], "lexer", colStart)
				okF := len(fv) == 1 && loadsField(fv[0], "lexer", "name")
				switch {
				case !okL:
					r.Bad(key, p.InstrPos(al), "Token.Line is not taken from the start-of-token line field %s", lineStart)
				case !okC:
					r.Bad(key, p.InstrPos(al), "Token.Col is not taken from the start-of-token column field %s (e.g. the running column points at the END of the token)", colStart)
				case !okF:
					r.Bad(key, p.InstrPos(al), "Token.Filename is not the lexer's template name")
				default:
					r.OK(key, p.InstrPos(al), "Line=%s Col=%s Filename=name", lineStart, colStart)
				}
			}
		}
	}
	if n == 0 {
		r.Unk("tokens", "-", "no Token construction found in the lexer")
	}
	// emit and errorf advance the start position to the running position afterwards
	for _, name := range []string{"emit", "ignore"} {
		f := p.Method("lexer", name)
		if f == nil {
			continue
		}
		got := map[string]bool{}
		// the stores of f itself, and of a lexer method f always ends up calling on the same lexer (emit may reset the
		// start position by calling ignore())
		for _, st := range u3ResetStores(p, f, 2) {
			if fa, ok := st.Addr.(*ssa.FieldAddr); ok {
				dst := fieldName(fa.X.Type(), fa.Field)
				if _, nn, src := fieldLoadBase(st.Val); nn != nil && nn.Obj().Name() == "lexer" && startOf[src] == dst {
					got[dst] = true
				}
			}
		}
		if got[lineStart] && got[colStart] && got[startOf["pos"]] {
			r.OK(name+":advance-start", p.Pos(f.Pos()), "%s moves start, %s, %s to the running position", name, lineStart, colStart)
		} else {
			r.Bad(name+":advance-start", p.Pos(f.Pos()), "%s does not reset all start-position fields from the running position (%v): the next token would report a stale position", name, got)
		}
	}
}

// R-C16-NL: newline bookkeeping.
func ruleC16Newline(p *Prog, a *Anchors, r *Report) {
	r.Begin("R-C16-NL", "column bookkeeping: next() advances the column by the width it consumed, backup() undoes exactly that, and at a newline the column restarts so that the first character of the next line is column 1", 3)
	next, backup := p.Method("lexer", "next"), p.Method("lexer", "backup")
	peek := p.Method("lexer", "peek")
	if next == nil || backup == nil {
		r.Unk("anchor", "-", "anchor unresolved: (*lexer).next/backup")
		return
	}
	chk := func(f *ssa.Function, op token.Token) {
		okPos, okCol := false, false
		for _, b := range f.Blocks {
			for _, in := range b.Instrs {
				st, ok := in.(*ssa.Store)
				if !ok {
					continue
				}
				bo, ok := st.Val.(*ssa.BinOp)
				if !ok || bo.Op != op {
					continue
				}
				if isFieldAddrOf(st.Addr, "lexer", "pos") && loadsField(bo.X, "lexer", "pos") && loadsField(bo.Y, "lexer", "width") {
					okPos = true
				}
				if isFieldAddrOf(st.Addr, "lexer", "col") && loadsField(bo.X, "lexer", "col") && loadsField(bo.Y, "lexer", "width") {
					okCol = true
				}
			}
		}
		if okPos && okCol {
			r.OK(f.Name()+":width", p.Pos(f.Pos()), "pos and col move by the same width (%s)", op)
		} else {
			r.Bad(f.Name()+":width", p.Pos(f.Pos()), "%s does not move pos and col by the same width (pos %v, col %v)", f.Name(), okPos, okCol)
		}
	}
	chk(next, token.ADD)
	chk(backup, token.SUB)
	// constant stores to col
	n := 0
	p.EachInstr(func(f *ssa.Function, in ssa.Instruction) {
		st, ok := in.(*ssa.Store)
		if !ok || !isFieldAddrOf(st.Addr, "lexer", "col") {
			return
		}
		k, isC := constInt(st.Val)
		if !isC {
			return
		}
		if f.Name() == "lex" {
			return // initial column
		}
		n++
		key := p.FuncName(f) + ":col=" + itoa(k)
		// which call produced the newline that is being tested?
		viaPeek := Guarded(in, func(c ssa.Value, pol bool) bool { return pol && isNewlineTest(c, peek) })
		viaNext := Guarded(in, func(c ssa.Value, pol bool) bool { return pol && isNewlineTest(c, next) })
		switch {
		case viaPeek && k == 0:
			// the newline itself is consumed afterwards and moves the column to 1
			r.OK(key, p.InstrPos(in), "column reset to 0 before the newline is consumed (next() then makes it 1)")
		case viaNext && k == 1:
			r.OK(key, p.InstrPos(in), "column set to 1 after the newline was consumed")
		case viaPeek || viaNext:
			r.Bad(key, p.InstrPos(in), "after a newline the first character of the next line would not be column 1 (reset to %d %s the newline is consumed)", k, map[bool]string{true: "before", false: "after"}[viaPeek])
		default:
			r.Bad(key, p.InstrPos(in), "the column is reset to %d without a newline test", k)
		}
		// a line increment accompanies it
		inc := false
		for _, x := range in.Block().Instrs {
			if s2, ok := x.(*ssa.Store); ok && isFieldAddrOf(s2.Addr, "lexer", "line") {
				if bo, ok := s2.Val.(*ssa.BinOp); ok && bo.Op == token.ADD && loadsField(bo.X, "lexer", "line") {
					if kk, isC := constInt(bo.Y); isC && kk == 1 {
						inc = true
					}
				}
			}
		}
		if inc {
			r.OK(key+":line++", p.InstrPos(in), "line is incremented with the column reset")
		} else {
			r.Bad(key+":line++", p.InstrPos(in), "the column restarts without the line being incremented")
		}
	})
	if n == 0 {
		r.Bad("newline", "-", "the lexer never restarts the column at a newline")
	}
	// every place where the scanning function (the one that counts lines) consumes a character with next() is preceded,
	// in the same pass, by a look at the coming character: a newline is either counted there or refused (the path ends
	// without consuming it). A loop that passes characters without that look — a comment that may span lines — leaves
	// every later token on too small a line.
	var scan *ssa.Function
	p.EachInstr(func(f *ssa.Function, in ssa.Instruction) {
		if st, ok := in.(*ssa.Store); ok && isFieldAddrOf(st.Addr, "lexer", "line") && f.Name() != "lex" {
			if bo, ok := st.Val.(*ssa.BinOp); ok && bo.Op == token.ADD && loadsField(bo.X, "lexer", "line") {
				scan = f
			}
		}
	})
	if scan == nil || peek == nil {
		r.Bad("counts-lines", "-", "no lexer function increments the line")
		return
	}
	k := 0
	for _, b := range scan.Blocks {
		for _, in := range b.Instrs {
			c, ok := in.(*ssa.Call)
			if !ok || c.Common().StaticCallee() != next {
				continue
			}
			k++
			key := p.FuncName(scan) + ":next"
			if k > 1 {
				key += "#" + itoa(int64(k))
			}
			counted := false
			for _, tb := range scan.Blocks {
				iff, isIf := tb.Instrs[len(tb.Instrs)-1].(*ssa.If)
				if !isIf || !tb.Dominates(b) || !isNewlineTest(iff.Cond, peek) {
					continue
				}
				// the newline edge: counts the line, or never reaches this next()
				nl := tb.Succs[0]
				inc := false
				for _, x := range nl.Instrs {
					if s2, ok := x.(*ssa.Store); ok && isFieldAddrOf(s2.Addr, "lexer", "line") {
						inc = true
					}
				}
				// the test belongs to this pass: the tested character is the one this next() consumes (no other
				// next() between them)
				between := false
				for _, mb := range scan.Blocks {
					if mb != b && tb.Dominates(mb) && mb.Dominates(b) && mb != tb {
						for _, x := range mb.Instrs {
							if cc, ok := x.(*ssa.Call); ok && cc.Common().StaticCallee() == next {
								between = true
							}
						}
					}
				}
				if !between && (inc || !ReachableBlocks(nl)[b] || nl == b && false) {
					counted = true
				}
			}
			if counted {
				r.OK(key, p.InstrPos(in), "the character it consumes was looked at first: a newline is counted or refused")
			} else {
				r.Bad(key, p.InstrPos(in), "%s consumes a character without a preceding newline test of peek() in the same pass: a line break passed here (e.g. inside a comment that may span lines) is not counted, and every later token and error reports a line that is too small", p.FuncName(scan))
			}
		}
	}
}

func isNewlineTest(c ssa.Value, fn *ssa.Function) bool {
	bo, ok := c.(*ssa.BinOp)
	if !ok || bo.Op != token.EQL {
		return false
	}
	call, ok := bo.X.(*ssa.Call)
	if !ok || call.Common().StaticCallee() != fn {
		return false
	}
	k, isC := constIntOrRune(bo.Y)
	return isC && k == '\n'
}

func itoa(k int64) string {
	if k == 0 {
		return "0"
	}
	neg := k < 0
	if neg {
		k = -k
	}
	s := ""
	for k > 0 {
		s = string(rune('0'+k%10)) + s
		k /= 10
	}
	if neg {
		s = "-" + s
	}
	return s
}

// indexIn: position of an instruction in its block, plus one (the point right after it).
func indexIn(in ssa.Instruction) int {
	for i, x := range in.Block().Instrs {
		if x == in {
			return i + 1
		}
	}
	return 0
}

// stripLoad: the value behind a load of a local cell.
func stripLoad(v ssa.Value) ssa.Value {
	if u, ok := v.(*ssa.UnOp); ok {
		if sv := localLoadValue(u); sv != nil {
			return sv
		}
	}
	return v
}

// freshErrorValue: the Error whose fields are stored is built here (an allocation) — and not a copy of an existing one
// (`c := *e`, completed and returned): such a copy carries the Filename, Line … of the error it was copied from.
func freshErrorValue(x ssa.Value) bool {
	al, ok := stripLoad(x).(*ssa.Alloc)
	if !ok {
		return false
	}
	for _, ref := range *al.Referrers() {
		st, ok := ref.(*ssa.Store)
		if !ok || st.Addr != ssa.Value(al) {
			continue
		}
		if u, ok := st.Val.(*ssa.UnOp); ok && u.Op == token.MUL {
			if _, isAl := stripLoad(u.X).(*ssa.Alloc); !isAl {
				return false
			}
		}
	}
	return true
}

// sameSourceAtom: the edge (c, pol) establishes that the error names the source of the token, or no source at all (its
// Filename is then filled in from the token): Filename == <token>.Filename, or Filename == "" (also as != on the other
// edge). `if e.Filename != "" && e.Filename != t.Filename { return }` puts one of the two on every path that goes on.
func sameSourceAtom(p *Prog, c ssa.Value, pol bool) bool {
	bo, ok := c.(*ssa.BinOp)
	if !ok || (bo.Op != token.EQL && bo.Op != token.NEQ) || (bo.Op == token.EQL) != pol {
		return false
	}
	fx, fy := loadsField(bo.X, "Error", "Filename"), loadsField(bo.Y, "Error", "Filename")
	tx, _ := tokenOfFieldLoad(p, bo.X, "Filename", 0)
	ty, _ := tokenOfFieldLoad(p, bo.Y, "Filename", 0)
	if (fx && len(ty) > 0) || (fy && len(tx) > 0) {
		return true
	}
	sx, isSX := constString(bo.X)
	sy, isSY := constString(bo.Y)
	return (fx && isSY && sy == "") || (fy && isSX && sx == "")
}
