package main

// C02 — autoescape: R-C02-SINK, SAFE, AND, MODE, TABLE.

import (
	"fmt"
	"go/token"
	"go/types"
	"sort"
	"strings"

	"golang.org/x/tools/go/ssa"
)

func init() { register("C02", checkC02) }

func checkC02(p *Prog, r *Report) {
	a := ResolveAnchors(p)
	if !anchorCheck(a, r) {
		return
	}
	ruleC02Sink(p, a, r)
	ruleC02Safe(p, a, r)
	ruleC02And(p, a, r)
	ruleC02Mode(p, a, r)
	ruleC02NeedsEscape(p, a, r)
	ruleC02NoDecode(p, a, r)
	r.Begin("R-C02-TABLE", "the escape filter replaces & < > \" ' by entities, & first (same table rule as R-C17-ESC)", 4)
	if esc := a.FilterFuncs["escape"]; esc != nil {
		checkReplaceTable(p, r, esc, "escape", map[string]bool{"&": true, "<": true, ">": true, "\"": true, "'": true}, func(pr replPair) string {
			if !strings.HasPrefix(pr.New, "&") || !strings.HasSuffix(pr.New, ";") || strings.ContainsAny(pr.New, "<>\"'") {
				return fmt.Sprintf("replacement %q for %q is not a harmless entity", pr.New, pr.Old)
			}
			return ""
		})
	} else {
		r.Unk("registry", "-", "anchor unresolved: filter \"escape\"")
	}
}

// ---- text provenance ----------------------------------------------------

type textClass struct {
	kind string    // const | rendered | numeric | time | value | unknown
	val  ssa.Value // for kind=value: the *Value whose String() is written
	why  string
}

func (p *Prog) isCompiledField(a *Anchors, v ssa.Value) (string, bool) {
	_, n, fld := fieldLoadBase(v)
	if n != nil && (a.CompiledTypes[n.Obj().Name()]) {
		return n.Obj().Name() + "." + fld, true
	}
	return "", false
}

// classifyText: where does the written text come from?
// classifyVisiting: values on the current walk, each in the helper call through which it was reached (classifyFrame, see
// tol_T4.go): the same phi of a helper entered through two different calls is not a cycle.
type classifyKey struct {
	v  ssa.Value
	fr *classifyFrame
}

var classifyVisiting = map[classifyKey]bool{}

func classifyText(p *Prog, a *Anchors, v ssa.Value, depth int) textClass {
	if depth == 0 {
		classifyVisiting = map[classifyKey]bool{}
		classifyCtx = nil
	}
	if depth > 14 {
		return textClass{kind: "unknown", why: "too deep"}
	}
	v = stripConv(v)
	switch x := v.(type) {
	case *ssa.Const:
		return textClass{kind: "const", why: "constant"}
	case *ssa.Convert:
		return classifyText(p, a, x.X, depth+1)
	case *ssa.Parameter:
		// an extracted helper: the text is what the callers pass
		return classifyParamText(p, a, x, depth)
	case *ssa.Slice:
		return classifyText(p, a, x.X, depth+1)
	case *ssa.UnOp:
		if x.Op == token.MUL {
			if name, ok := p.isCompiledField(a, x); ok {
				return textClass{kind: "const", why: "parse-time field " + name}
			}
			// element of a package-level table
			if ia, ok := x.X.(*ssa.IndexAddr); ok {
				if g := globalLoaded(ia.X); g != nil {
					return textClass{kind: "const", why: "element of package table " + g.Name()}
				}
			}
			if sv := localLoadValue(x); sv != nil {
				return classifyText(p, a, sv, depth+1)
			}
			if cells := p.cellsOf(x.X, 0); len(cells) > 0 {
				var acc *textClass
				for _, c := range cells {
					for _, s := range p.cellStores[c] {
						tc := classifyText(p, a, s, depth+1)
						if acc == nil {
							acc = &tc
						} else if acc.kind != tc.kind {
							return textClass{kind: "unknown", why: "cell holds " + acc.kind + " and " + tc.kind}
						}
					}
				}
				if acc != nil {
					return *acc
				}
			}
		}
	case *ssa.Phi:
		vk := classifyKey{x, classifyCtx}
		if classifyVisiting[vk] {
			return textClass{kind: "cycle"}
		}
		classifyVisiting[vk] = true
		defer delete(classifyVisiting, vk)
		var acc *textClass
		for _, e := range x.Edges {
			if e == ssa.Value(x) {
				continue
			}
			tc := classifyText(p, a, e, depth+1)
			if tc.kind == "cycle" {
				continue
			}
			if acc == nil {
				acc = &tc
				continue
			}
			if tc.kind != acc.kind {
				// const/rendered/numeric mix is still harmless
				harmless := map[string]bool{"const": true, "rendered": true, "numeric": true, "time": true}
				if harmless[tc.kind] && harmless[acc.kind] {
					acc.kind = "rendered"
					continue
				}
				return textClass{kind: "unknown", why: "phi of " + acc.kind + " and " + tc.kind}
			}
		}
		if acc != nil {
			return *acc
		}
	case *ssa.BinOp:
		if x.Op == token.ADD {
			l, rr := classifyText(p, a, x.X, depth+1), classifyText(p, a, x.Y, depth+1)
			harmless := map[string]bool{"const": true, "rendered": true, "numeric": true, "time": true}
			if harmless[l.kind] && harmless[rr.kind] {
				return textClass{kind: "rendered", why: "concatenation of harmless parts"}
			}
			return textClass{kind: "unknown", why: "concatenation with " + l.kind + "/" + rr.kind}
		}
	case *ssa.Call:
		cc := x.Common()
		callee := cc.StaticCallee()
		if callee == nil {
			return textClass{kind: "unknown", why: "dynamic call"}
		}
		name := p.extName(callee)
		switch name {
		case "(*bytes.Buffer).String", "(*bytes.Buffer).Bytes", "(*strings.Builder).String":
			if allFresh(p.Roots(cc.Args[0])) {
				return textClass{kind: "rendered", why: "content of a local buffer"}
			}
			return textClass{kind: "unknown", why: "buffer of unknown origin"}
		case "(*regexp.Regexp).ReplaceAllString":
			in := classifyText(p, a, cc.Args[1], depth+1)
			rep := classifyText(p, a, cc.Args[2], depth+1)
			if in.kind == "cycle" && rep.kind == "const" {
				return in
			}
			if (in.kind == "rendered" || in.kind == "const") && rep.kind == "const" {
				return textClass{kind: "rendered", why: "regexp replacement with a constant on rendered text"}
			}
			return textClass{kind: "unknown", why: "regexp replacement on " + in.kind}
		case "fmt.Sprintf":
			if _, isC := constString(cc.Args[0]); !isC {
				return textClass{kind: "unknown", why: "Sprintf with computed format"}
			}
			for _, av := range varargValues(cc.Args[1]) {
				if !isNumeric(av.Type()) {
					tc := classifyText(p, a, av, depth+1)
					if tc.kind != "const" && tc.kind != "numeric" {
						return textClass{kind: "unknown", why: "Sprintf argument of kind " + tc.kind}
					}
				}
			}
			return textClass{kind: "numeric", why: "Sprintf of numbers with a constant format"}
		case "strconv.Itoa", "strconv.FormatInt", "strconv.FormatFloat", "strconv.FormatUint":
			return textClass{kind: "numeric", why: name}
		case "(time.Time).Format":
			lay := classifyText(p, a, cc.Args[1], depth+1)
			if lay.kind == "const" {
				return textClass{kind: "time", why: "time formatted with a template-supplied layout"}
			}
			return textClass{kind: "unknown", why: "time layout of kind " + lay.kind}
		case "strings.Replace", "strings.ReplaceAll", "(*strings.Replacer).Replace", "html.EscapeString":
			// text that went through a complete HTML escaping table is harmless whatever it was before
			if pairs, _, _, errText := extractReplacementChain(p, x); errText == "" {
				covered := map[string]bool{}
				okTable := len(pairs) > 0 && pairs[0].Old == "&"
				for _, pr := range pairs {
					covered[pr.Old] = true
					if (pr.Old == "&" || pr.Old == "<" || pr.Old == ">" || pr.Old == "\"" || pr.Old == "'") && (!strings.HasPrefix(pr.New, "&") || !strings.HasSuffix(pr.New, ";") || strings.ContainsAny(pr.New, "<>\"'")) {
						okTable = false
					}
				}
				if okTable && covered["&"] && covered["<"] && covered[">"] && covered["\""] && covered["'"] {
					return textClass{kind: "rendered", why: "text passed through the complete escaping table (& first, then < > \" ')"}
				}
			}
			return textClass{kind: "unknown", why: "result of " + name}
		case "strings.TrimLeft", "strings.TrimRight", "strings.TrimSpace", "strings.Repeat", "strings.TrimPrefix", "strings.TrimSuffix", "strings.Trim":
			return classifyText(p, a, cc.Args[0], depth+1)
		case "(*Value).String":
			return textClass{kind: "value", val: cc.Args[0], why: "String() of a *Value"}
		}
		// a package helper returning text: classify what it returns, its parameters standing for this call's arguments
		if p.InPkg(callee) && callee.Blocks != nil && depth < 10 && callee.Signature.Results().Len() > 0 && isStringType(callee.Signature.Results().At(0).Type()) {
			if tc, ok := classifyHelperResult(p, a, x, callee, depth); ok {
				return tc
			}
		}
		return textClass{kind: "unknown", why: "result of " + name}
	}
	return textClass{kind: "unknown", why: p.VN(v)}
}

// isEscapeResult: v is result #0 of applying the escape filter.
func isEscapeResult(p *Prog, a *Anchors, v ssa.Value) bool {
	ex, ok := v.(*ssa.Extract)
	if !ok || ex.Index != 0 {
		return false
	}
	c, ok := ex.Tuple.(*ssa.Call)
	if !ok {
		return false
	}
	cc := c.Common()
	if callee := cc.StaticCallee(); callee != nil {
		if callee.Name() == "ApplyFilter" && p.InPkg(callee) {
			s, isC := constString(cc.Args[0])
			return isC && (s == "escape" || s == "e")
		}
		return callee == a.FilterFuncs["escape"]
	}
	if lk, isLk := cc.Value.(*ssa.Lookup); isLk && isLoadOfGlobal(lk.X, a.FilterRegistry) {
		s, isC := constString(lk.Index)
		return isC && (s == "escape" || s == "e")
	}
	return false
}

// optOutEdge: the branch establishes one of the documented opt-outs for value u (nil = any value).
func optOutEdge(p *Prog, u ssa.Value) EdgePred {
	return func(c ssa.Value, pol bool) bool {
		if loadsField(c, "ExecutionContext", "Autoescape") {
			return !pol
		}
		if base, n, fld := fieldLoadBase(c); n != nil && n.Obj().Name() == "Value" && fld == "safe" {
			return pol && (u == nil || p.VN(base) == p.VN(u))
		}
		call, ok := c.(*ssa.Call)
		if !ok {
			return false
		}
		cc := call.Common()
		name := ""
		if cc.IsInvoke() {
			name = cc.Method.Name()
		} else if cc.StaticCallee() != nil {
			name = cc.StaticCallee().Name()
		}
		switch name {
		case "FilterApplied":
			args := cc.Args
			if !cc.IsInvoke() {
				args = args[1:]
			}
			s, isC := constString(args[0])
			return pol && isC && s == "safe"
		case "needsEscape":
			return !pol && (u == nil || p.VN(cc.Args[0]) == p.VN(u))
		}
		return false
	}
}

// edgeGuardedBy: is the CFG edge pred→succ reachable from the entry without taking an establishing edge
// (the edge itself may be the establishing one)? returns true if NOT reachable that way, i.e. guarded.
func edgeGuardedBy(pred, succ *ssa.BasicBlock, ep EdgePred) bool {
	f := pred.Parent()
	entry := f.Blocks[0]
	seen := map[*ssa.BasicBlock]bool{entry: true}
	work := []*ssa.BasicBlock{entry}
	for len(work) > 0 {
		b := work[len(work)-1]
		work = work[:len(work)-1]
		for i, s := range b.Succs {
			if edgeEstablishes(b, i, ep) {
				continue
			}
			if b == pred && s == succ {
				return false
			}
			if !seen[s] {
				seen[s] = true
				work = append(work, s)
			}
		}
	}
	return true
}

func ruleC02Sink(p *Prog, a *Anchors, r *Report) {
	r.Begin("R-C02-SINK", "every writer sink reachable from execution writes constants/parse-time text, rendered sub-output, numbers, or a value that was escaped or passed an explicit opt-out (autoescape off, |safe, value marked safe, text that cannot carry context data) on every path", 20)
	reach := a.ExecReach()
	valPtr := types.NewPointer(a.Value)
	_ = valPtr
	for _, f := range p.Funcs {
		for _, b := range f.Blocks {
			for _, in := range b.Instrs {
				ci, ok := in.(ssa.CallInstruction)
				if !ok || !ci.Common().IsInvoke() {
					continue
				}
				cc := ci.Common()
				if cc.Method.Name() != "WriteString" && cc.Method.Name() != "Write" {
					continue
				}
				if n, isNamed := cc.Value.Type().(*types.Named); !isNamed || n.Obj().Name() != "TemplateWriter" {
					continue
				}
				key := p.FuncName(f) + ":sink"
				pos := p.InstrPos(in)
				if !reach[f] {
					r.Dead(key, pos, "not reachable from execution (the node type is never a document node)")
					continue
				}
				tc := classifyText(p, a, cc.Args[0], 0)
				switch tc.kind {
				case "const", "rendered", "numeric", "time", "optout":
					// optout: the sink is in a helper; a *Value's text was judged at the call that hands it over (tol_T4.go)
					r.OK(key, pos, "%s text: %s", tc.kind, tc.why)
					continue
				case "unknown":
					r.Bad(key, pos, "the written text has an origin the checker cannot classify as harmless: %s", tc.why)
					continue
				}
				// a *Value is printed
				ok2, why := valueSinkOK(p, a, in, tc.val, 0)
				if ok2 {
					r.OK(key, pos, "%s", why)
				} else {
					r.Bad(key, pos, "%s", why)
				}
			}
		}
	}
}

// valueSinkOK: the *Value v whose String() reaches the sink `at` is escaped or opted out on every path.
func valueSinkOK(p *Prog, a *Anchors, at ssa.Instruction, v ssa.Value, depth int) (bool, string) {
	if depth > 6 {
		return false, "value flow too deep"
	}
	if u, ok := v.(*ssa.UnOp); ok {
		if sv := localLoadValue(u); sv != nil {
			v = sv
		}
	}
	if isEscapeResult(p, a, v) {
		return true, "value is the result of the escape filter"
	}
	if phi, ok := v.(*ssa.Phi); ok {
		// per incoming edge
		for i, e := range phi.Edges {
			if e == ssa.Value(phi) {
				continue
			}
			if isEscapeResult(p, a, e) {
				continue
			}
			pred := phi.Block().Preds[i]
			if edgeGuardedBy(pred, phi.Block(), optOutEdge(p, e)) {
				continue
			}
			// nested phi (loop-carried chains)
			if ok, _ := valueSinkOK(p, a, pred.Instrs[len(pred.Instrs)-1], e, depth+1); ok {
				continue
			}
			return false, fmt.Sprintf("the printed value can be %s on the path through block %d without having been escaped and without an opt-out (autoescape off / |safe / marked safe / text that cannot carry data): context text reaches the output raw", p.VN(e), pred.Index)
		}
		return true, "every incoming value is escaped or arrives behind an opt-out"
	}
	if Guarded(at, optOutEdge(p, v)) {
		return true, "sink reached only behind an opt-out"
	}
	// constant / rendered values wrapped into a Value
	if c, ok := v.(*ssa.Call); ok && c.Common().StaticCallee() != nil && (c.Common().StaticCallee().Name() == "AsValue" || c.Common().StaticCallee().Name() == "AsSafeValue") {
		tc := classifyText(p, a, c.Common().Args[0], 0)
		if tc.kind == "const" || tc.kind == "rendered" || tc.kind == "numeric" {
			return true, "value wraps " + tc.kind + " text"
		}
	}
	// the value is handed back by a package helper (`val, err := escapeIfNeeded(ctx, expr, val, tok)`): judged at the
	// helper's returns, its parameters standing for the arguments of this call (tol_U8.go)
	if ok, why, handled := valueFromHelperOK(p, a, v, depth); handled {
		return ok, why
	}
	return false, fmt.Sprintf("the value %s is printed with String() without escaping and without an opt-out test on every path: context text reaches the output raw", p.VN(v))
}

// ---- safe bit provenance -------------------------------------------------

var safeFilterNames = []string{"truncatechars_html", "truncatewords_html", "safe"}

func ruleC02Safe(p *Prog, a *Anchors, r *Report) {
	r.Begin("R-C02-SAFE", "a value is marked safe only when its text is rendered output or a constant, in the documented HTML-aware filters, or when the bit is copied while unwrapping the very same value", 6)
	asSafe := p.Func("AsSafeValue")
	allowedFn := map[*ssa.Function]string{}
	for _, n := range safeFilterNames {
		if f := a.FilterFuncs[n]; f != nil {
			allowedFn[f] = n
		}
	}
	p.EachInstr(func(f *ssa.Function, in ssa.Instruction) {
		// (1) AsSafeValue(x)
		if c, ok := in.(*ssa.Call); ok && c.Common().StaticCallee() == asSafe && asSafe != nil {
			key := p.FuncName(f) + ":AsSafeValue"
			if n, ok := allowedFn[topLevel(f)]; ok {
				r.OK(key, p.InstrPos(in), "documented opt-out filter %s", n)
				return
			}
			tc := classifyText(p, a, c.Common().Args[0], 0)
			if tc.kind == "const" || tc.kind == "rendered" || tc.kind == "numeric" {
				r.OK(key, p.InstrPos(in), "marks %s text safe (%s)", tc.kind, tc.why)
			} else {
				r.Bad(key, p.InstrPos(in), "AsSafeValue on %s (%s): text that may come from the context is marked safe and will be written unescaped", tc.kind, tc.why)
			}
			return
		}
		// (2) stores to Value.safe
		st, ok := in.(*ssa.Store)
		if !ok || !isFieldAddrOf(st.Addr, "Value", "safe") {
			return
		}
		if f == asSafe {
			return
		}
		key := p.FuncName(f) + ":Value.safe="
		// sources of the stored bit
		var srcs []ssa.Value
		var walk func(v ssa.Value, d int)
		seen := map[ssa.Value]bool{}
		walk = func(v ssa.Value, d int) {
			if seen[v] || d > 8 {
				return
			}
			seen[v] = true
			if phi, ok := v.(*ssa.Phi); ok {
				for _, e := range phi.Edges {
					walk(e, d+1)
				}
				return
			}
			// the bit handed back by a helper of the package (`current, isSafe = unpackCallResult(rv)`): what the
			// helper's returns hand back
			if ex, ok := v.(*ssa.Extract); ok {
				if c, isCall := ex.Tuple.(*ssa.Call); isCall {
					if g := c.Common().StaticCallee(); g != nil && p.InPkg(g) && g.Blocks != nil {
						for _, ret := range returnsOf(g) {
							if ex.Index < len(ret.Results) {
								walk(res(ret, ex.Index), d+1)
							}
						}
						return
					}
				}
			}
			// the bit kept in a field of a local record (`step.safe`): what is stored into that field
			if u, ok := v.(*ssa.UnOp); ok && u.Op == token.MUL {
				if fa, isFA := u.X.(*ssa.FieldAddr); isFA {
					if al, isAl := fa.X.(*ssa.Alloc); isAl && al.Parent() == f {
						if n := structOf(al.Type()); n == nil || n.Obj().Name() != "Value" {
							found := false
							for _, bb := range f.Blocks {
								for _, x := range bb.Instrs {
									if s2, isSt := x.(*ssa.Store); isSt {
										if fb, isFB := s2.Addr.(*ssa.FieldAddr); isFB && fb.X == ssa.Value(al) && fb.Field == fa.Field {
											found = true
											walk(s2.Val, d+1)
										}
									}
								}
							}
							if found {
								return
							}
						}
					}
				}
			}
			srcs = append(srcs, v)
		}
		walk(st.Val, 0)
		// loop-carried bit: in a loop over steps, the flag of one step must not survive into the next (what a step
		// takes out of a safe value is not safe because its container was)
		for v := range seen {
			phi, ok := v.(*ssa.Phi)
			if !ok {
				continue
			}
			h := phi.Block()
			for i, pr := range h.Preds {
				if !h.Dominates(pr) {
					continue // entry edge
				}
				carried := false
				seenC := map[ssa.Value]bool{}
				var back func(x ssa.Value, d int)
				back = func(x ssa.Value, d int) {
					if d > 10 || seenC[x] || carried {
						return
					}
					seenC[x] = true
					if x == ssa.Value(phi) {
						carried = true
						return
					}
					if ph, isPhi := x.(*ssa.Phi); isPhi {
						for _, e := range ph.Edges {
							back(e, d+1)
						}
					}
				}
				back(phi.Edges[i], 0)
				if carried {
					r.Bad(key+"carried", p.InstrPos(in), "the safe bit is carried from one iteration of the loop to the next: a value reached by a later step (a method result, a field, an item) inherits the safe mark of an earlier value on the path and is printed unescaped")
				} else {
					r.OK(key+"carried", p.InstrPos(in), "the safe bit is decided anew in every iteration of the loop")
				}
			}
		}
		// a call in between: the bit taken from the *Value that held a FUNCTION must not mark what the function returned
		// (Go code marked the function value, not the text its call hands back). Along the phis that carry an unwrapped
		// value's bit to this store, no reflective call lies between where the bit is defined and the edge it travels on.
		{
			var hdr *ssa.BasicBlock
			reachAvoid := func(from *ssa.BasicBlock) map[*ssa.BasicBlock]bool {
				out := map[*ssa.BasicBlock]bool{}
				var visit func(b *ssa.BasicBlock)
				visit = func(b *ssa.BasicBlock) {
					if out[b] || b == hdr {
						return
					}
					out[b] = true
					for _, sc := range b.Succs {
						visit(sc)
					}
				}
				for _, sc := range from.Succs {
					visit(sc)
				}
				return out
			}
			var rcs []*ssa.Call
			for _, b := range f.Blocks {
				for _, x := range b.Instrs {
					if c, ok := x.(*ssa.Call); ok && c02ReflectiveCall(p, c, 0) {
						rcs = append(rcs, c)
					}
				}
			}
			isSafeLoad := func(v ssa.Value) bool {
				_, n, fld := fieldLoadBase(v)
				return n != nil && n.Obj().Name() == "Value" && fld == "safe"
			}
			var leads func(v ssa.Value, d int) bool
			leads = func(v ssa.Value, d int) bool {
				if d > 8 {
					return false
				}
				if isSafeLoad(v) {
					return true
				}
				if ph, ok := v.(*ssa.Phi); ok {
					for _, e := range ph.Edges {
						if e != v && leads(e, d+1) {
							return true
						}
					}
				}
				return false
			}
			defBlock := func(v ssa.Value) *ssa.BasicBlock {
				if in, ok := v.(ssa.Instruction); ok {
					return in.Block()
				}
				return nil
			}
			// between(D, vDef, B): a reflective call after the definition (block D; vDef's own index when in D) and
			// before the end of block B, without passing the loop header
			between := func(v ssa.Value, to *ssa.BasicBlock, toIdx int) *ssa.Call {
				D := defBlock(v)
				if D == nil {
					return nil
				}
				hdr = innermostLoopHeader(D)
				fromD := reachAvoid(D)
				for _, rc := range rcs {
					rb := rc.Block()
					afterDef := fromD[rb]
					if rb == D {
						if in, ok := v.(ssa.Instruction); ok && (instrIndex(rc) > instrIndex(in) || isPhiValue(v)) {
							afterDef = true
						}
					}
					if !afterDef {
						continue
					}
					if rb == to {
						if toIdx < 0 || instrIndex(rc) < toIdx {
							return rc
						}
						continue
					}
					if reachAvoid(rb)[to] {
						return rc
					}
				}
				return nil
			}
			var offending *ssa.Call
			var check func(v ssa.Value, d int)
			seenP := map[ssa.Value]bool{}
			check = func(v ssa.Value, d int) {
				if d > 8 || seenP[v] || offending != nil {
					return
				}
				seenP[v] = true
				ph, ok := v.(*ssa.Phi)
				if !ok {
					return
				}
				for i, e := range ph.Edges {
					if !leads(e, 0) || i >= len(ph.Block().Preds) {
						continue
					}
					if rc := between(e, ph.Block().Preds[i], -1); rc != nil {
						offending = rc
						return
					}
					check(e, d+1)
				}
			}
			if leads(st.Val, 0) {
				if rc := between(st.Val, st.Block(), instrIndex(st)); rc != nil {
					offending = rc
				}
				check(st.Val, 0)
				if offending != nil {
					r.Bad(key+"across-call", p.InstrPos(in), "the safe bit copied from an unwrapped *Value is still in effect after the call at %s replaced the value by what the call returned: a function marked safe (AsSafeValue(func…), a method value) hands its mark to the plain text it returns, and {{ echo(userInput) }} prints caller text unescaped although nobody marked that text", p.InstrPos(offending))
				} else if len(rcs) > 0 {
					r.OK(key+"across-call", p.InstrPos(in), "no reflective call lies between the unwrapping that yields the bit and the edges it reaches this store on (%d call sites looked at)", len(rcs))
				}
			}
		}
		// the val stored into the same object
		obj := st.Addr.(*ssa.FieldAddr).X
		var valStored ssa.Value
		for _, u := range refs(obj) {
			if fa, ok := u.(*ssa.FieldAddr); ok && fieldName(fa.X.Type(), fa.Field) == "val" {
				for _, uu := range refs(fa) {
					if s2, ok := uu.(*ssa.Store); ok {
						valStored = s2.Val
					}
				}
			}
		}
		for _, s := range srcs {
			if b, isC := constBool(s); isC {
				if !b {
					continue
				}
				// constant true: harmless only if the wrapped value's static type cannot render context text
				if valStored != nil && wrapsNonText(valStored) {
					r.OK(key+"true", p.InstrPos(in), "safe=true on a value whose kind (%s) never renders its contents", describeWrapped(valStored))
				} else {
					r.Bad(key+"true", p.InstrPos(in), "a Value is constructed with safe=true around %s", p.VN(valStored))
				}
				continue
			}
			// copy of the bit of an unwrapped *Value
			base, n, fld := fieldLoadBase(s)
			if n != nil && n.Obj().Name() == "Value" && fld == "safe" {
				if _, isAssert := unwrapSource(base); isAssert {
					r.OK(key+"copy", p.InstrPos(in), "the bit is copied from the *Value being unwrapped (%s)", p.VN(base))
				} else {
					r.Bad(key+"copy", p.InstrPos(in), "the safe bit of %s is transferred to a different value (%s): items of a safe container / derived values must not inherit safeness", p.VN(base), p.VN(valStored))
				}
				continue
			}
			r.Bad(key+"computed", p.InstrPos(in), "safe bit computed from %s", p.VN(s))
		}
	})
}

// unwrapSource: v is X.Interface().(*Value) (possibly through a local): the value itself is being unwrapped.
func unwrapSource(v ssa.Value) (ssa.Value, bool) {
	for i := 0; i < 4; i++ {
		switch x := v.(type) {
		case *ssa.TypeAssert:
			return x.X, true
		case *ssa.Extract:
			if ta, ok := x.Tuple.(*ssa.TypeAssert); ok {
				return ta.X, true
			}
			return nil, false
		case *ssa.UnOp:
			if sv := localLoadValue(x); sv != nil {
				v = sv
				continue
			}
			return nil, false
		default:
			return nil, false
		}
	}
	return nil, false
}

// wrapsNonText: reflect.ValueOf(x) with x of a static type whose String() is the type-name placeholder.
func wrapsNonText(v ssa.Value) bool {
	c, ok := v.(*ssa.Call)
	if !ok || c.Common().StaticCallee() == nil || c.Common().StaticCallee().Name() != "ValueOf" {
		return false
	}
	mi, ok := c.Common().Args[0].(*ssa.MakeInterface)
	if !ok {
		return false
	}
	switch mi.X.Type().Underlying().(type) {
	case *types.Slice, *types.Map, *types.Array, *types.Struct:
		return true
	}
	return false
}

func describeWrapped(v ssa.Value) string {
	if c, ok := v.(*ssa.Call); ok {
		if mi, ok := c.Common().Args[0].(*ssa.MakeInterface); ok {
			return typeName(mi.X.Type())
		}
	}
	return "?"
}

// ---- FilterApplied is a conjunction --------------------------------------

func ruleC02And(p *Prog, a *Anchors, r *Report) {
	r.Begin("R-C02-AND", "FilterApplied of an operator node is the conjunction of its operands' (a |safe on one operand does not make the whole expression safe); leaves answer false unless they own a filter chain", 8)
	for _, T := range a.EvalTypes {
		f := p.Method(T.Obj().Name(), "FilterApplied")
		if f == nil {
			continue
		}
		st, ok := T.Underlying().(*types.Struct)
		if !ok {
			continue
		}
		var evFields []string
		hasChain := false
		for i := 0; i < st.NumFields(); i++ {
			if n, ok := st.Field(i).Type().(*types.Named); ok && n.Obj().Name() == "IEvaluator" {
				evFields = append(evFields, st.Field(i).Name())
			}
			if strings.Contains(strings.ToLower(st.Field(i).Name()), "filterchain") {
				hasChain = true
			}
		}
		key := T.Obj().Name() + ".FilterApplied"
		pos := p.Pos(f.Pos())
		switch {
		case hasChain:
			// true only on name equality with a chain element
			ok := true
			for _, ret := range returnsOf(f) {
				if b, isC := constBool(res(ret, 0)); isC && b {
					g := Guarded(ret, func(c ssa.Value, pol bool) bool {
						bo, ok := c.(*ssa.BinOp)
						return ok && bo.Op == token.EQL && pol && (bo.Y == ssa.Value(f.Params[1]) || bo.X == ssa.Value(f.Params[1]))
					})
					if !g {
						ok = false
					}
				} else if !isC {
					ok = false
				}
			}
			if ok {
				r.OK(key, pos, "true only when a chain element's name equals the asked name")
			} else {
				r.Bad(key, pos, "FilterApplied of the filtered variable returns true without a name match")
			}
		case len(evFields) == 0:
			ok := true
			for _, ret := range returnsOf(f) {
				if b, isC := constBool(res(ret, 0)); !isC || b {
					ok = false
				}
			}
			if ok {
				r.OK(key, pos, "leaf: always false")
			} else {
				r.Bad(key, pos, "a leaf evaluator claims that a filter was applied")
			}
		case len(evFields) == 1:
			// pass-through
			ok := false
			for _, ret := range returnsOf(f) {
				if c, isCall := res(ret, 0).(*ssa.Call); isCall && c.Common().IsInvoke() && c.Common().Method.Name() == "FilterApplied" && loadsField(c.Common().Value, T.Obj().Name(), evFields[0]) {
					ok = true
				}
			}
			if ok {
				r.OK(key, pos, "delegates to its only operand")
			} else {
				r.Bad(key, pos, "single-operand node does not delegate FilterApplied to its operand")
			}
		default:
			tt, err := filterAppliedTruthTable(p, f, T.Obj().Name(), evFields[0], evFields[1])
			if err != "" {
				r.Unk(key, pos, "cannot evaluate the truth table: %s", err)
				continue
			}
			bad := ""
			for i := 0; i < 8; i++ {
				A, N, B := i&4 != 0, i&2 != 0, i&1 != 0
				want := A && (N || B)
				if tt[i] != want {
					bad = fmt.Sprintf("first=%v secondIsNil=%v second=%v gives %v, conjunction requires %v", A, N, B, tt[i], want)
				}
			}
			if bad == "" {
				r.OK(key, pos, "truth table equals first ∧ (second == nil ∨ second)")
			} else {
				r.Bad(key, pos, "FilterApplied is not the conjunction of the operands: %s (an expression with one |safe operand would be written unescaped)", bad)
			}
		}
	}
}

// filterAppliedTruthTable interprets the SSA of a two-operand FilterApplied over (A, N, B).
func filterAppliedTruthTable(p *Prog, f *ssa.Function, typ, f1, f2 string) ([8]bool, string) {
	var out [8]bool
	for i := 0; i < 8; i++ {
		A, N, B := i&4 != 0, i&2 != 0, i&1 != 0
		var prev *ssa.BasicBlock
		b := f.Blocks[0]
		env := map[*ssa.Phi]bool{}
		var eval func(v ssa.Value, d int) (bool, bool)
		eval = func(v ssa.Value, d int) (bool, bool) {
			if d > 20 {
				return false, false
			}
			if c, isC := constBool(v); isC {
				return c, true
			}
			switch x := v.(type) {
			case *ssa.UnOp:
				if x.Op == token.NOT {
					r, ok := eval(x.X, d+1)
					return !r, ok
				}
			case *ssa.BinOp:
				if x.Op == token.EQL || x.Op == token.NEQ {
					if isNilConst(x.Y) && loadsField(x.X, typ, f2) {
						return N == (x.Op == token.EQL), true
					}
					if isNilConst(x.Y) && loadsField(x.X, typ, f1) {
						return x.Op == token.NEQ, true // first operand is never nil
					}
				}
			case *ssa.Call:
				if x.Common().IsInvoke() && x.Common().Method.Name() == "FilterApplied" {
					if loadsField(x.Common().Value, typ, f1) {
						return A, true
					}
					if loadsField(x.Common().Value, typ, f2) {
						if N {
							return false, false // calling a method on a nil operand: would panic
						}
						return B, true
					}
				}
			case *ssa.Phi:
				if r, ok := env[x]; ok {
					return r, true
				}
			}
			return false, false
		}
		steps := 0
		for {
			steps++
			if steps > 50 {
				return out, "no termination"
			}
			// entering block b from prev: bind its phis
			if prev != nil {
				vals := map[*ssa.Phi]bool{}
				for _, in := range b.Instrs {
					phi, ok := in.(*ssa.Phi)
					if !ok {
						break
					}
					for pi, pr := range b.Preds {
						if pr == prev {
							v, ok := eval(phi.Edges[pi], 0)
							if !ok {
								return out, "cannot evaluate phi operand " + p.VN(phi.Edges[pi])
							}
							vals[phi] = v
						}
					}
				}
				for k, v := range vals {
					env[k] = v
				}
			}
			last := b.Instrs[len(b.Instrs)-1]
			switch t := last.(type) {
			case *ssa.Return:
				// phi in the return block refers to prev
				v, ok := eval(t.Results[0], 0)
				if !ok {
					return out, "cannot evaluate return value " + p.VN(t.Results[0])
				}
				out[i] = v
			case *ssa.If:
				c, ok := eval(t.Cond, 0)
				if !ok {
					return out, "cannot evaluate condition " + p.VN(t.Cond)
				}
				prev = b
				if c {
					b = b.Succs[0]
				} else {
					b = b.Succs[1]
				}
				continue
			case *ssa.Jump:
				prev = b
				b = b.Succs[0]
				continue
			default:
				return out, "unexpected terminator"
			}
			break
		}
	}
	return out, ""
}

// ---- who writes the escaping mode -----------------------------------------

func ruleC02Mode(p *Prog, a *Anchors, r *Report) {
	r.Begin("R-C02-MODE", "the escaping mode of an execution is set only by the context constructors and by the autoescape tag, which stores its parse-time constant and restores the previous mode on the success path", 3)
	p.EachInstr(func(f *ssa.Function, in ssa.Instruction) {
		st, ok := in.(*ssa.Store)
		if !ok || !isFieldAddrOf(st.Addr, "ExecutionContext", "Autoescape") {
			return
		}
		key := p.FuncName(f) + ":Autoescape="
		obj := st.Addr.(*ssa.FieldAddr).X
		switch {
		case len(p.directAllocs(obj, 0)) > 0:
			// constructor: value is the package default or the parent's mode
			if g := globalLoaded(st.Val); g != nil {
				r.OK(key+"default", p.InstrPos(in), "new context starts with the package default %s", g.Name())
			} else if loadsField(st.Val, "ExecutionContext", "Autoescape") {
				r.OK(key+"inherit", p.InstrPos(in), "child context inherits the parent's mode")
			} else {
				r.Bad(key+"ctor", p.InstrPos(in), "a new execution context starts with escaping mode %s", p.VN(st.Val))
			}
		case topLevel(f).Signature.Recv() != nil && structOf(topLevel(f).Signature.Recv().Type()) != nil && structOf(topLevel(f).Signature.Recv().Type()).Obj().Name() == "tagAutoescapeNode":
			if loadsField(st.Val, "tagAutoescapeNode", "autoescape") {
				r.OK(key+"set", p.InstrPos(in), "set to the mode written in the template")
			} else if u, ok := st.Val.(*ssa.UnOp); ok && isFieldAddrOf(u.X, "ExecutionContext", "Autoescape") {
				// restore: the load happened before the first store
				r.OK(key+"restore", p.InstrPos(in), "previous mode restored")
			} else {
				r.Bad(key+"tag", p.InstrPos(in), "the autoescape tag stores %s", p.VN(st.Val))
			}
		default:
			r.Bad(key+"elsewhere", p.InstrPos(in), "%s changes the escaping mode of a running execution: only the autoescape tag may", p.FuncName(f))
		}
	})
	// restore on every successful exit of the tag
	if f := p.Method("tagAutoescapeNode", "Execute"); f != nil {
		var first *ssa.Store
		var restores []*ssa.Store
		for _, b := range f.Blocks {
			for _, in := range b.Instrs {
				st, ok := in.(*ssa.Store)
				if !ok || !isFieldAddrOf(st.Addr, "ExecutionContext", "Autoescape") {
					continue
				}
				if loadsField(st.Val, "tagAutoescapeNode", "autoescape") {
					first = st
				} else {
					restores = append(restores, st)
				}
			}
		}
		if first == nil {
			r.Bad("(*tagAutoescapeNode).Execute:sets", p.Pos(f.Pos()), "the autoescape tag never sets the mode")
			return
		}
		ok := len(restores) > 0
		for _, ret := range successReturns(f) {
			passes := MustPass(ret, func(x ssa.Instruction) bool {
				for _, rs := range restores {
					if x == ssa.Instruction(rs) {
						return true
					}
				}
				return false
			})
			if !passes {
				ok = false
			}
		}
		// the restored value was loaded before the mode was changed
		for _, rs := range restores {
			if u, isU := rs.Val.(*ssa.UnOp); isU && !Dominates(u, first) {
				ok = false
			}
		}
		if ok {
			r.OK("(*tagAutoescapeNode).Execute:restore", p.InstrPos(first), "every successful exit restores the mode that was loaded before the change")
		} else {
			r.Bad("(*tagAutoescapeNode).Execute:restore", p.InstrPos(first), "the previous escaping mode is not restored on every successful exit: `autoescape off` leaks beyond its endautoescape")
		}
	} else {
		r.Unk("(*tagAutoescapeNode).Execute", "-", "anchor unresolved")
	}
}

// ruleC02NeedsEscape: R-C02-SINK accepts `!value.needsEscape()` as "this text cannot carry caller data". That is only
// sound while the predicate knows every way in which Value.String() obtains text from the underlying value: the two
// functions are siblings and must agree. Every Stringer assertion by which String() gets text must be made by the
// predicate on the same operand, and the predicate must answer true for string kinds.
func ruleC02NeedsEscape(p *Prog, a *Anchors, r *Report) {
	r.Begin("R-C02-NEEDS", "the predicate that exempts a value from escaping agrees with Value.String(): it answers true for string kinds and for every Stringer assertion through which String() takes text from the value", 2)
	str := p.Method("Value", "String")
	var pred *ssa.Function
	// the predicate: the bool method of *Value that the sink rule's opt-out names
	for _, f := range p.Methods(a.Value) {
		if f.Name() == "needsEscape" {
			pred = f
		}
	}
	if str == nil {
		r.Unk("anchor", "-", "anchor unresolved: (*Value).String")
		return
	}
	if pred == nil {
		r.Trivial("no-predicate", "-", "no needsEscape predicate: the sink rule then has no such opt-out")
		return
	}
	norm := func(f *ssa.Function, v ssa.Value) string {
		k := p.VN(v)
		if len(f.Params) > 0 {
			k = strings.ReplaceAll(k, "param:"+f.Params[0].Name(), "param:#recv")
		}
		return k
	}
	stringerAsserts := func(f *ssa.Function) map[string]ssa.Instruction {
		out := map[string]ssa.Instruction{}
		for _, g := range clusterOf(p, f, 0) {
			for _, b := range g.Blocks {
				for _, in := range b.Instrs {
					ta, ok := in.(*ssa.TypeAssert)
					if !ok {
						continue
					}
					it, ok := ta.AssertedType.Underlying().(*types.Interface)
					if !ok {
						continue
					}
					hasString := false
					for i := 0; i < it.NumMethods(); i++ {
						if it.Method(i).Name() == "String" || it.Method(i).Name() == "Error" {
							hasString = true
						}
					}
					if hasString {
						out[norm(f, ta.X)] = in
					}
				}
			}
		}
		return out
	}
	inStr, inPred := stringerAsserts(str), stringerAsserts(pred)
	keys := make([]string, 0, len(inStr))
	for k := range inStr {
		keys = append(keys, k)
	}
	sort.Strings(keys)
	for _, k := range keys {
		key := "String:stringer " + k
		if _, ok := inPred[k]; ok {
			r.OK(key, p.InstrPos(inStr[k]), "needsEscape makes the same assertion on the same operand")
		} else {
			r.Bad(key, p.InstrPos(inStr[k]), "Value.String() takes text from a String()/Error() method found by asserting %s, but needsEscape() does not make that assertion: such a value is printed without escaping", k)
		}
	}
	// string kinds
	strKind := false
	for _, b := range pred.Blocks {
		for _, in := range b.Instrs {
			if c, ok := in.(*ssa.Call); ok && c.Common().StaticCallee() != nil && c.Common().StaticCallee().Name() == "IsString" {
				strKind = true
			}
			if bo, ok := in.(*ssa.BinOp); ok {
				if k, isK := kindConst(bo.Y); isK && k == kString {
					strKind = true
				}
			}
		}
	}
	if strKind {
		r.OK("needsEscape:string-kind", p.Pos(pred.Pos()), "tests the string kind")
	} else {
		r.Bad("needsEscape:string-kind", p.Pos(pred.Pos()), "needsEscape() no longer tests for string kinds: plain strings would be exempt from escaping")
	}
}

func isPhiValue(v ssa.Value) bool { _, ok := v.(*ssa.Phi); return ok }

// c02ReflectiveCall: the call runs code of the caller through reflection: (reflect.Value).Call itself, or a function
// of the package that makes such a call (two levels).
func c02ReflectiveCall(p *Prog, c *ssa.Call, depth int) bool {
	g := c.Common().StaticCallee()
	if g == nil {
		return false
	}
	if nm := p.extName(g); nm == "(reflect.Value).Call" || nm == "(reflect.Value).CallSlice" {
		return true
	}
	if !p.InPkg(g) || g.Blocks == nil || depth >= 2 {
		return false
	}
	for _, b := range g.Blocks {
		for _, in := range b.Instrs {
			if cc, ok := in.(*ssa.Call); ok && c02ReflectiveCall(p, cc, depth+1) {
				return true
			}
		}
	}
	return false
}
