package main

// C01, nesting of executions — R-C01-TREEHOP, R-C01-OPERAND.

import (
	"go/token"
	"go/types"
	"strings"

	"golang.org/x/tools/go/ssa"
)

// R-C01-TREEHOP. The stack budget (R-C01-BUDGET) counts N levels of nesting per nested execution: the nesting bound is
// a bound per template SOURCE. It bounds the stack only if every step of the execution from one compiled tree into
// another — or into the same tree again — is a counted one. Macro calls, block.Super and include/ssi are; what also
// leaves the tree a node stands in is the execution of a node list that was looked up at execution time in a
// template's block table (the most-derived definition of a block lives in another template of the extends chain and
// brings that template's own nesting with it). Every execution of a node list that does not come from the executing
// node's own fields stands behind a depth step.
func ruleC01TreeHop(p *Prog, a *Anchors, r *Report) {
	r.Begin("R-C01-TREEHOP", "a node list looked up at execution time (a block definition from a template's block table, the list a block record carries) is executed only behind a depth step: every move of the execution into another template's tree is counted", 2)
	wrapper := p.Named("NodeWrapper")
	if wrapper == nil {
		r.Unk("anchor", "-", "anchor unresolved: type NodeWrapper")
		return
	}
	isNodeType := func(n *types.Named) bool {
		for _, nt := range a.NodeTypes {
			if nt == n {
				return true
			}
		}
		return false
	}
	// origin of a *NodeWrapper value: "own" (a field of a node type), "foreign" (a Template's table, a non-node record)
	var origin func(v ssa.Value, d int, seen map[ssa.Value]bool) (own, foreign bool, what string)
	origin = func(v ssa.Value, d int, seen map[ssa.Value]bool) (own, foreign bool, what string) {
		if v == nil || seen[v] || d > 14 {
			return
		}
		seen[v] = true
		merge := func(o, f bool, w string) {
			own = own || o
			foreign = foreign || f
			if w != "" && what == "" {
				what = w
			}
		}
		switch x := v.(type) {
		case *ssa.Phi:
			for _, e := range x.Edges {
				merge(origin(e, d+1, seen))
			}
		case *ssa.Extract:
			merge(origin(x.Tuple, d+1, seen))
		case *ssa.Lookup:
			if _, n, fld := fieldLoadBase(x.X); n != nil && n == a.Template {
				return false, true, "Template." + fld + "[…]"
			}
			merge(origin(x.X, d+1, seen))
		case *ssa.Slice:
			merge(origin(x.X, d+1, seen))
		case *ssa.ChangeType:
			merge(origin(x.X, d+1, seen))
		case *ssa.MakeInterface:
			merge(origin(x.X, d+1, seen))
		case *ssa.Call:
			if bi, ok := x.Common().Value.(*ssa.Builtin); ok && bi.Name() == "append" {
				for _, arg := range x.Common().Args {
					merge(origin(arg, d+1, seen))
				}
				return
			}
			callee := x.Common().StaticCallee()
			if callee != nil && callee.Blocks != nil && p.InPkg(callee) {
				for _, ret := range returnsOf(callee) {
					if len(ret.Results) > 0 {
						merge(origin(res(ret, 0), d+1, seen))
					}
				}
			}
		case *ssa.Parameter:
			for _, s := range paramActualSites(p, x) {
				merge(origin(s.val, d+1, seen))
			}
		case *ssa.UnOp:
			if x.Op != token.MUL {
				return
			}
			if cell, ok := x.X.(*ssa.Alloc); ok {
				for _, sv := range allStoresTo(cell) {
					merge(origin(sv, d+1, seen))
				}
				// a slice literal's backing array: stores into its elements
				return
			}
			if ia, ok := x.X.(*ssa.IndexAddr); ok {
				merge(origin(ia.X, d+1, seen))
				return
			}
			if _, n, fld := fieldLoadBase(x); n != nil {
				switch {
				case isNodeType(n):
					return true, false, ""
				case n == a.Template:
					return false, true, "Template." + fld
				case n == wrapper:
					return true, false, ""
				default:
					return false, true, n.Obj().Name() + "." + fld
				}
			}
		case *ssa.Alloc:
			// a local slice under construction: what is stored into its elements
			for _, u := range refs(x) {
				if ia, ok := u.(*ssa.IndexAddr); ok {
					for _, uu := range refs(ia) {
						if st, ok := uu.(*ssa.Store); ok && st.Addr == ssa.Value(ia) {
							merge(origin(st.Val, d+1, seen))
						}
					}
				}
			}
		}
		return
	}
	n := 0
	reach := a.ExecReach()
	for _, f := range p.inPkgFuncsSorted(reach) {
		k := 0
		for _, b := range f.Blocks {
			for _, in := range b.Instrs {
				c, ok := in.(*ssa.Call)
				if !ok || c.Common().StaticCallee() == nil || c.Common().StaticCallee().Name() != "Execute" || len(c.Common().Args) == 0 {
					continue
				}
				if n2 := structOf(c.Common().Args[0].Type()); n2 == nil || n2 != wrapper {
					continue
				}
				own, foreign, what := origin(c.Common().Args[0], 0, map[ssa.Value]bool{})
				if !foreign {
					_ = own
					continue
				}
				entry := false
				for _, e := range a.ExecEntries {
					if e == topLevel(f) {
						entry = true // the start of a rendering: nothing is on the stack yet
					}
				}
				if entry {
					continue
				}
				n++
				k++
				key := p.FuncName(topLevel(f)) + ":executes-looked-up-nodes"
				if k > 1 {
					key += "#" + itoa(int64(k))
				}
				if behindDepthStep(p, in) {
					r.OK(key, p.InstrPos(in), "the node list (from %s) is executed behind a depth step", what)
				} else {
					r.Bad(key, p.InstrPos(in), "%s executes a node list it looked up at execution time (%s) without counting the step: the most-derived definition of a block lives in another template and brings that template's whole nesting with it, so one macro activation (or one level of block.Super) can hold the nesting bound once per template of an extends chain — the recursion bounds no longer bound the stack, and a recursive macro routed through overridden blocks ends the process", p.FuncName(f), what)
				}
			}
		}
	}
	if n == 0 {
		r.Unk("none", "-", "no execution of a looked-up node list found")
	}
}

// R-C01-OPERAND. The nesting bound counts levels of the expression tree; the budget assumes that one counted level
// costs one node's worth of stack. Every operand that is parsed after an operator (or `:` of a filter parameter) was
// matched becomes the child of a node that stays in the tree and adds frames when it is evaluated — `x in <operand>`,
// `not <operand>`, `-<operand>`, `|f:<parameter>` — so parsing it has to count a level. In the expression parser, a
// call of a function that returns an expression, made after a successful match of a token in the same function,
// stands behind a depth step (or the callee counts itself first thing, like ParseExpression).
func ruleC01Operand(p *Prog, a *Anchors, r *Report) {
	r.Begin("R-C01-OPERAND", "in the expression parser every operand or parameter parsed after a matched operator token is counted as a level of nesting (a depth step lies between the match and the call, or the callee counts itself)", 4)
	top := p.Method("Parser", "ParseExpression")
	if top == nil || a.IEvaluator == nil {
		r.Unk("anchor", "-", "anchor unresolved: (*Parser).ParseExpression / IEvaluator")
		return
	}
	// the expression parser: methods of Parser in a call-graph cycle with ParseExpression
	fromTop := p.Reach(p.CG, []*ssa.Function{top}, nil)
	var fns []*ssa.Function
	for _, f := range p.inPkgFuncsSorted(fromTop) {
		if f.Signature.Recv() == nil || structOf(f.Signature.Recv().Type()) == nil || structOf(f.Signature.Recv().Type()).Obj().Name() != "Parser" || f.Parent() != nil {
			continue
		}
		if p.Reach(p.CG, []*ssa.Function{f}, nil)[top] {
			fns = append(fns, f)
		}
	}
	inCycle := map[*ssa.Function]bool{}
	for _, f := range fns {
		inCycle[f] = true
	}
	returnsExpr := func(f *ssa.Function) bool {
		res := f.Signature.Results()
		if res.Len() == 0 {
			return false
		}
		it, ok := res.At(0).Type().Underlying().(*types.Interface)
		return ok && types.Identical(it, a.IEvaluator)
	}
	// the callee counts itself: its entry block's first call is a depth step whose error edge returns
	countsFirst := func(g *ssa.Function) bool {
		for _, in := range g.Blocks[0].Instrs {
			if c, ok := in.(*ssa.Call); ok {
				return c.Common().StaticCallee() != nil && depthStepFunc(p, c.Common().StaticCallee())
			}
		}
		return false
	}
	isStep := func(in ssa.Instruction) bool {
		c, ok := in.(*ssa.Call)
		return ok && c.Common().StaticCallee() != nil && depthStepFunc(p, c.Common().StaticCallee())
	}
	isMatch := func(v ssa.Value) bool {
		c, ok := v.(*ssa.Call)
		if !ok || c.Common().StaticCallee() == nil {
			return false
		}
		n := c.Common().StaticCallee().Name()
		return p.InPkg(c.Common().StaticCallee()) && (strings.HasPrefix(n, "Match") || strings.HasPrefix(n, "Peek"))
	}
	n := 0
	for _, f := range fns {
		k := 0
		for _, b := range f.Blocks {
			for _, in := range b.Instrs {
				c, ok := in.(*ssa.Call)
				if !ok {
					continue
				}
				callee := c.Common().StaticCallee()
				if callee == nil || !inCycle[callee] || !returnsExpr(callee) || countsFirst(callee) {
					continue
				}
				// every success edge of a token match in f from which the call can be reached
				var uncounted ssa.Instruction
				for _, mb := range f.Blocks {
					iff, ok := mb.Instrs[len(mb.Instrs)-1].(*ssa.If)
					if !ok {
						continue
					}
					// the conditions that hold on each of the two edges of the branch
					type edgeCond struct {
						c    ssa.Value
						pol  bool
						succ *ssa.BasicBlock
					}
					var ecs []edgeCond
					for i, edgePol := range []bool{true, false} {
						cc, pp := normCond(iff.Cond, edgePol)
						ecs = append(ecs, edgeCond{cc, pp, mb.Succs[i]})
						for _, cp := range expandShortCircuit(cc, pp, 0) {
							ecs = append(ecs, edgeCond{cp.c, cp.pol, mb.Succs[i]})
						}
					}
					for _, ec := range ecs {
						x, eq, isNil := condIsNilTest(ec.c)
						if !isNil || !isMatch(x) || eq == ec.pol {
							continue // not an edge on which a token WAS matched
						}
						succ := ec.succ
						if !ReachableBlocks(succ)[b] && succ != b {
							continue
						}
						if !MustPassFrom(succ, 0, in, isStep) && !mustPassFromFlagsEdge(mb, succ, in, isStep) {
							uncounted = iff
						}
					}
				}
				n++
				k++
				key := p.FuncName(f) + ":operand " + callee.Name()
				if k > 1 {
					key += "#" + itoa(int64(k))
				}
				if uncounted == nil {
					r.OK(key, p.InstrPos(in), "no matched token leads here without a depth step")
				} else {
					r.Bad(key, p.InstrPos(in), "%s parses an operand with %s after a token was matched (%s) without counting a level: the node that keeps the operand adds frames at evaluation that the nesting bound does not see — nested once per counted level (`0 in not 0|default:x[…`) one level costs twice the stack the budget assumes, and a recursive macro with such a body exhausts the stack before the depth error", p.FuncName(f), callee.Name(), p.InstrPos(uncounted))
				}
			}
		}
	}
	if n == 0 {
		r.Unk("none", "-", "no operand call found in the expression parser")
	}
}

// mustPassFromFlags is MustPassFrom with boolean flags followed along each path: a bool phi whose incoming edge on the
// path carries a constant (or another flag already known on the path) is known, and a branch on a known flag is taken
// only in its feasible direction (`prefixed = true … if prefixed { count }`).
func mustPassFromFlags(start *ssa.BasicBlock, target ssa.Instruction, barrier func(ssa.Instruction) bool) bool {
	return mustPassFromFlagsFrom(start, nil, target, barrier)
}

func mustPassFromFlagsFrom(start, startFrom *ssa.BasicBlock, target ssa.Instruction, barrier func(ssa.Instruction) bool) bool {
	type state struct {
		b, from *ssa.BasicBlock
		env     string
	}
	tb, ti := target.Block(), instrIndex(target)
	seen := map[state]bool{}
	reached := false
	encode := func(env map[*ssa.Phi]bool) string {
		var parts []string
		for k, v := range env {
			s := k.Name() + "=0"
			if v {
				s = k.Name() + "=1"
			}
			parts = append(parts, s)
		}
		sortStrings(parts)
		return strings.Join(parts, ",")
	}
	var walk func(b, from *ssa.BasicBlock, env map[*ssa.Phi]bool, depth int)
	walk = func(b, from *ssa.BasicBlock, env map[*ssa.Phi]bool, depth int) {
		if reached || depth > 400 {
			return
		}
		// phis of b, given the edge taken
		next := map[*ssa.Phi]bool{}
		for k, v := range env {
			next[k] = v
		}
		if from != nil {
			idx := -1
			for i, pr := range b.Preds {
				if pr == from {
					idx = i
				}
			}
			for _, in := range b.Instrs {
				phi, ok := in.(*ssa.Phi)
				if !ok {
					break
				}
				delete(next, phi)
				if idx < 0 || idx >= len(phi.Edges) {
					continue
				}
				if bt, isB := phi.Type().Underlying().(*types.Basic); !isB || bt.Info()&types.IsBoolean == 0 {
					continue
				}
				switch e := phi.Edges[idx].(type) {
				case *ssa.Const:
					if e.Value != nil {
						next[phi] = e.Value.ExactString() == "true"
					}
				case *ssa.Phi:
					if v, known := env[e]; known {
						next[phi] = v
					}
				}
			}
		}
		st := state{b, from, encode(next)}
		if seen[st] {
			return
		}
		seen[st] = true
		for i, in := range b.Instrs {
			if b == tb && i == ti {
				reached = true
				return
			}
			if barrier(in) {
				return
			}
		}
		if iff, ok := b.Instrs[len(b.Instrs)-1].(*ssa.If); ok {
			c, pol := normCond(iff.Cond, true)
			if phi, isPhi := c.(*ssa.Phi); isPhi {
				if v, known := next[phi]; known {
					if v == pol {
						walk(b.Succs[0], b, next, depth+1)
					} else {
						walk(b.Succs[1], b, next, depth+1)
					}
					return
				}
			}
		}
		for _, s := range b.Succs {
			walk(s, b, next, depth+1)
		}
	}
	// the start block is entered on the edge under test: its phis are taken as unknown
	walk(start, startFrom, map[*ssa.Phi]bool{}, 0)
	return !reached
}


// mustPassFromFlagsEdge: as mustPassFromFlags, entering succ from block pred (so that succ's own phis are known).
func mustPassFromFlagsEdge(pred, succ *ssa.BasicBlock, target ssa.Instruction, barrier func(ssa.Instruction) bool) bool {
	// a synthetic walk: start at succ with `from` = pred
	return mustPassFromFlagsFrom(succ, pred, target, barrier)
}
