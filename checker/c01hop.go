package main

// C01, nesting of executions — R-C01-TREEHOP, R-C01-OPERAND.

import (
	"fmt"
	"os"
	"go/token"
	"go/types"
	"strings"

	"golang.org/x/tools/go/ssa"
)

// R-C01-TREEHOP. The stack budget (R-C01-BUDGET) counts N levels of nesting per nested execution: the nesting bound is
// a bound per template SOURCE. It bounds the stack only if every step of the execution from one compiled tree into
// another — or into the same tree again — is a counted one. Macro calls, block.Super and include/ssi are; what also
// leaves the tree a node stands in is the execution of a node list that was looked up at execution time in a
// template's block table (the most-derived definition of a block lives in another template of the extends chain and
// brings that template's own nesting with it). Every execution of a node list that does not come from the executing
// node's own fields stands behind a depth step.
func ruleC01TreeHop(p *Prog, a *Anchors, r *Report) {
	r.Begin("R-C01-TREEHOP", "a node list looked up at execution time (a block definition from a template's block table, the list a block record carries) is executed only behind a depth step: every move of the execution into another template's tree is counted", 2)
	wrapper := p.Named("NodeWrapper")
	if wrapper == nil {
		r.Unk("anchor", "-", "anchor unresolved: type NodeWrapper")
		return
	}
	isNodeType := func(n *types.Named) bool {
		for _, nt := range a.NodeTypes {
			if nt == n {
				return true
			}
		}
		return false
	}
	// origin of a *NodeWrapper value: "own" (a field of a node type), "foreign" (a Template's table, a non-node record)
	var origin func(v ssa.Value, d int, seen map[ssa.Value]bool) (own, foreign bool, what string)
	origin = func(v ssa.Value, d int, seen map[ssa.Value]bool) (own, foreign bool, what string) {
		if v == nil || seen[v] || d > 14 {
			return
		}
		seen[v] = true
		merge := func(o, f bool, w string) {
			own = own || o
			foreign = foreign || f
			if w != "" && what == "" {
				what = w
			}
		}
		switch x := v.(type) {
		case *ssa.Phi:
			for _, e := range x.Edges {
				merge(origin(e, d+1, seen))
			}
		case *ssa.Extract:
			merge(origin(x.Tuple, d+1, seen))
		case *ssa.Lookup:
			if _, n, fld := fieldLoadBase(x.X); n != nil && n == a.Template {
				return false, true, "Template." + fld + "[…]"
			}
			merge(origin(x.X, d+1, seen))
		case *ssa.Slice:
			merge(origin(x.X, d+1, seen))
		case *ssa.ChangeType:
			merge(origin(x.X, d+1, seen))
		case *ssa.MakeInterface:
			merge(origin(x.X, d+1, seen))
		case *ssa.Call:
			if bi, ok := x.Common().Value.(*ssa.Builtin); ok && bi.Name() == "append" {
				for _, arg := range x.Common().Args {
					merge(origin(arg, d+1, seen))
				}
				return
			}
			callee := x.Common().StaticCallee()
			if callee != nil && callee.Blocks != nil && p.InPkg(callee) {
				for _, ret := range returnsOf(callee) {
					if len(ret.Results) > 0 {
						merge(origin(res(ret, 0), d+1, seen))
					}
				}
			}
		case *ssa.Parameter:
			for _, s := range paramActualSites(p, x) {
				merge(origin(s.val, d+1, seen))
			}
		case *ssa.UnOp:
			if x.Op != token.MUL {
				return
			}
			if cell, ok := x.X.(*ssa.Alloc); ok {
				for _, sv := range allStoresTo(cell) {
					merge(origin(sv, d+1, seen))
				}
				// a slice literal's backing array: stores into its elements
				return
			}
			if ia, ok := x.X.(*ssa.IndexAddr); ok {
				merge(origin(ia.X, d+1, seen))
				return
			}
			if _, n, fld := fieldLoadBase(x); n != nil {
				switch {
				case isNodeType(n):
					return true, false, ""
				case n == a.Template:
					return false, true, "Template." + fld
				case n == wrapper:
					return true, false, ""
				default:
					return false, true, n.Obj().Name() + "." + fld
				}
			}
		case *ssa.Alloc:
			// a local slice under construction: what is stored into its elements
			for _, u := range refs(x) {
				if ia, ok := u.(*ssa.IndexAddr); ok {
					for _, uu := range refs(ia) {
						if st, ok := uu.(*ssa.Store); ok && st.Addr == ssa.Value(ia) {
							merge(origin(st.Val, d+1, seen))
						}
					}
				}
			}
		}
		return
	}
	n := 0
	reach := a.ExecReach()
	for _, f := range p.inPkgFuncsSorted(reach) {
		k := 0
		for _, b := range f.Blocks {
			for _, in := range b.Instrs {
				c, ok := in.(*ssa.Call)
				if !ok || c.Common().StaticCallee() == nil || c.Common().StaticCallee().Name() != "Execute" || len(c.Common().Args) == 0 {
					continue
				}
				if n2 := structOf(c.Common().Args[0].Type()); n2 == nil || n2 != wrapper {
					continue
				}
				own, foreign, what := origin(c.Common().Args[0], 0, map[ssa.Value]bool{})
				if !foreign {
					_ = own
					continue
				}
				entry := false
				for _, e := range a.ExecEntries {
					if e == topLevel(f) {
						entry = true // the start of a rendering: nothing is on the stack yet
					}
				}
				if entry {
					continue
				}
				n++
				k++
				key := p.FuncName(topLevel(f)) + ":executes-looked-up-nodes"
				if k > 1 {
					key += "#" + itoa(int64(k))
				}
				if behindDepthStep(p, in) {
					r.OK(key, p.InstrPos(in), "the node list (from %s) is executed behind a depth step", what)
				} else {
					r.Bad(key, p.InstrPos(in), "%s executes a node list it looked up at execution time (%s) without counting the step: the most-derived definition of a block lives in another template and brings that template's whole nesting with it, so one macro activation (or one level of block.Super) can hold the nesting bound once per template of an extends chain — the recursion bounds no longer bound the stack, and a recursive macro routed through overridden blocks ends the process", p.FuncName(f), what)
				}
			}
		}
	}
	if n == 0 {
		r.Unk("none", "-", "no execution of a looked-up node list found")
	}
}

// R-C01-OPERAND. The nesting bound counts levels of the expression tree; the budget assumes that one counted level
// costs one node's worth of stack. Every operand that is parsed after an operator (or `:` of a filter parameter) was
// matched becomes the child of a node that stays in the tree and adds frames when it is evaluated — `x in <operand>`,
// `not <operand>`, `-<operand>`, `|f:<parameter>` — so parsing it has to count a level. In the expression parser, a
// call of a function that returns an expression, made after a successful match of a token in the same function,
// stands behind a depth step (or the callee counts itself first thing, like ParseExpression).
func ruleC01Operand(p *Prog, a *Anchors, r *Report) {
	r.Begin("R-C01-OPERAND", "in the expression parser every operand or parameter parsed after a matched operator token is counted as a level of nesting (a depth step lies between the match and the call, or the callee counts itself)", 4)
	top := p.Method("Parser", "ParseExpression")
	if top == nil || a.IEvaluator == nil {
		r.Unk("anchor", "-", "anchor unresolved: (*Parser).ParseExpression / IEvaluator")
		return
	}
	// the expression parser: methods of Parser in a call-graph cycle with ParseExpression
	fromTop := p.Reach(p.CG, []*ssa.Function{top}, nil)
	var fns []*ssa.Function
	for _, f := range p.inPkgFuncsSorted(fromTop) {
		if f.Signature.Recv() == nil || structOf(f.Signature.Recv().Type()) == nil || structOf(f.Signature.Recv().Type()).Obj().Name() != "Parser" || f.Parent() != nil {
			continue
		}
		if p.Reach(p.CG, []*ssa.Function{f}, nil)[top] {
			fns = append(fns, f)
		}
	}
	inCycle := map[*ssa.Function]bool{}
	for _, f := range fns {
		inCycle[f] = true
	}
	returnsExpr := func(f *ssa.Function) bool {
		res := f.Signature.Results()
		if res.Len() == 0 {
			return false
		}
		it, ok := res.At(0).Type().Underlying().(*types.Interface)
		return ok && types.Identical(it, a.IEvaluator)
	}
	// the callee counts itself: its entry block's first call is a depth step whose error edge returns
	countsFirst := func(g *ssa.Function) bool {
		for _, in := range g.Blocks[0].Instrs {
			if c, ok := in.(*ssa.Call); ok {
				return c.Common().StaticCallee() != nil && depthStepFunc(p, c.Common().StaticCallee())
			}
		}
		return false
	}
	isStep := func(in ssa.Instruction) bool {
		c, ok := in.(*ssa.Call)
		return ok && c.Common().StaticCallee() != nil && depthStepFunc(p, c.Common().StaticCallee())
	}
	isMatch := func(v ssa.Value) bool {
		c, ok := v.(*ssa.Call)
		if !ok || c.Common().StaticCallee() == nil {
			return false
		}
		n := c.Common().StaticCallee().Name()
		return p.InPkg(c.Common().StaticCallee()) && (strings.HasPrefix(n, "Match") || strings.HasPrefix(n, "Peek"))
	}
	n := 0
	for _, f := range fns {
		k := 0
		for _, b := range f.Blocks {
			for _, in := range b.Instrs {
				c, ok := in.(*ssa.Call)
				if !ok {
					continue
				}
				callee := c.Common().StaticCallee()
				if callee == nil || !inCycle[callee] || !returnsExpr(callee) || countsFirst(callee) {
					continue
				}
				// every success edge of a token match in f from which the call can be reached
				var uncounted ssa.Instruction
				for _, mb := range f.Blocks {
					iff, ok := mb.Instrs[len(mb.Instrs)-1].(*ssa.If)
					if !ok {
						continue
					}
					// the conditions that hold on each of the two edges of the branch
					type edgeCond struct {
						c    ssa.Value
						pol  bool
						succ *ssa.BasicBlock
					}
					var ecs []edgeCond
					for i, edgePol := range []bool{true, false} {
						// (only the branch that tests the match itself: a boolean computed from it earlier and
						// branched on later — `negative := sign != nil && …` — is not where the token was matched)
						cc, pp := normCond(iff.Cond, edgePol)
						ecs = append(ecs, edgeCond{cc, pp, mb.Succs[i]})
					}
					for _, ec := range ecs {
						x, eq, isNil := condIsNilTest(ec.c)
						if !isNil || !isMatch(x) || eq == ec.pol {
							continue // not an edge on which a token WAS matched
						}
						succ := ec.succ
						if !ReachableBlocks(succ)[b] && succ != b {
							continue
						}
						if !MustPassFrom(succ, 0, in, isStep) && !mustPassFromFlagsEdge(mb, succ, in, isStep) {
							uncounted = iff
							if os.Getenv("PONGOCHECK_DEBUG") != "" {
								fmt.Fprintf(os.Stderr, "OPERAND debug: %s call %s: edge %d->%d uncounted\n", p.FuncName(f), callee.Name(), mb.Index, succ.Index)
							}
						}
					}
				}
				n++
				k++
				key := p.FuncName(f) + ":operand " + callee.Name()
				if k > 1 {
					key += "#" + itoa(int64(k))
				}
				if uncounted == nil {
					r.OK(key, p.InstrPos(in), "no matched token leads here without a depth step")
				} else {
					r.Bad(key, p.InstrPos(in), "%s parses an operand with %s after a token was matched (%s) without counting a level: the node that keeps the operand adds frames at evaluation that the nesting bound does not see — nested once per counted level (`0 in not 0|default:x[…`) one level costs twice the stack the budget assumes, and a recursive macro with such a body exhausts the stack before the depth error", p.FuncName(f), callee.Name(), p.InstrPos(uncounted))
				}
			}
		}
	}
	if n == 0 {
		r.Unk("none", "-", "no operand call found in the expression parser")
	}
}

// mustPassFromFlags is MustPassFrom with boolean flags followed along each path: a bool phi whose incoming edge on the
// path carries a constant (or another flag already known on the path) is known, and a branch on a known flag is taken
// only in its feasible direction (`prefixed = true … if prefixed { count }`).
func mustPassFromFlags(start *ssa.BasicBlock, target ssa.Instruction, barrier func(ssa.Instruction) bool) bool {
	return mustPassFromFlagsFrom(start, nil, target, barrier)
}

func mustPassFromFlagsFrom(start, startFrom *ssa.BasicBlock, target ssa.Instruction, barrier func(ssa.Instruction) bool) bool {
	type state struct {
		b, from *ssa.BasicBlock
		env     string
	}
	tb, ti := target.Block(), instrIndex(target)
	seen := map[state]bool{}
	reached := false
	encode := func(env map[*ssa.Phi]bool) string {
		var parts []string
		for k, v := range env {
			s := k.Name() + "=0"
			if v {
				s = k.Name() + "=1"
			}
			parts = append(parts, s)
		}
		sortStrings(parts)
		return strings.Join(parts, ",")
	}
	// what is known about nil-ness on the path: the edge the walk starts on may be the success edge of a nil test
	nonNil := map[ssa.Value]bool{}
	if startFrom != nil && len(startFrom.Instrs) > 0 {
		if iff, ok := startFrom.Instrs[len(startFrom.Instrs)-1].(*ssa.If); ok {
			for i, edgePol := range []bool{true, false} {
				if startFrom.Succs[i] != start {
					continue
				}
				cc, pp := normCond(iff.Cond, edgePol)
				if x, eq, isNil := condIsNilTest(cc); isNil {
					nonNil[stripLoad(x)] = eq != pp // x != nil holds on this edge
				}
			}
		}
	}
	// boolean fields of local records set to a constant on the path (`expr.negate = true … if expr.negate`)
	type memKey struct {
		base  ssa.Value
		field int
		tag   string // "" for a boolean field; otherwise "<method>==<const>" asked of the cell `base`
	}
	var walkM func(b, from *ssa.BasicBlock, env map[*ssa.Phi]bool, mem map[memKey]bool, depth int)
	var walk func(b, from *ssa.BasicBlock, env map[*ssa.Phi]bool, depth int)
	curMem := map[memKey]bool{}
	walk = func(b, from *ssa.BasicBlock, env map[*ssa.Phi]bool, depth int) {
		walkM(b, from, env, curMem, depth)
	}
	walkM = func(b, from *ssa.BasicBlock, env map[*ssa.Phi]bool, memIn map[memKey]bool, depth int) {
		if reached || depth > 400 {
			return
		}
		mem := map[memKey]bool{}
		for k, v := range memIn {
			mem[k] = v
		}
		saved := curMem
		curMem = mem
		defer func() { curMem = saved }()
		// phis of b, given the edge taken
		next := map[*ssa.Phi]bool{}
		for k, v := range env {
			next[k] = v
		}
		if from != nil {
			idx := -1
			for i, pr := range b.Preds {
				if pr == from {
					idx = i
				}
			}
			for _, in := range b.Instrs {
				phi, ok := in.(*ssa.Phi)
				if !ok {
					break
				}
				delete(next, phi)
				if idx < 0 || idx >= len(phi.Edges) {
					continue
				}
				if bt, isB := phi.Type().Underlying().(*types.Basic); !isB || bt.Info()&types.IsBoolean == 0 {
					continue
				}
				switch e := phi.Edges[idx].(type) {
				case *ssa.Const:
					if e.Value != nil {
						next[phi] = e.Value.ExactString() == "true"
					}
				case *ssa.Phi:
					if v, known := env[e]; known {
						next[phi] = v
					}
				}
			}
		}
		memSig := ""
		for k, v := range mem {
			memSig += fmt.Sprintf("|%s.%d%s=%v", k.base.Name(), k.field, k.tag, v)
		}
		st := state{b, from, encode(next) + memSig}
		if seen[st] {
			return
		}
		seen[st] = true
		for i, in := range b.Instrs {
			if b == tb && i == ti {
				reached = true
				return
			}
			if barrier(in) {
				return
			}
			if sto, isSt := in.(*ssa.Store); isSt {
				if _, isCell := sto.Addr.(*ssa.Alloc); isCell {
					for k := range mem {
						if k.tag != "" && k.base == sto.Addr {
							delete(mem, k)
						}
					}
				}
				if fa, isFA := sto.Addr.(*ssa.FieldAddr); isFA {
					k := memKey{fa.X, fa.Field, ""}
					if c, isC := sto.Val.(*ssa.Const); isC && c.Value != nil && (c.Value.ExactString() == "true" || c.Value.ExactString() == "false") {
						mem[k] = c.Value.ExactString() == "true"
					} else {
						delete(mem, k)
					}
				}
			}
		}
		if iff, ok := b.Instrs[len(b.Instrs)-1].(*ssa.If); ok {
			c, pol := normCond(iff.Cond, true)
			if x, eq, isNil := condIsNilTest(c); isNil {
				if nn, known := nonNil[stripLoad(x)]; known {
					// c is `x == nil` (eq) or `x != nil`; its truth value under the known fact
					holds := nn != eq
					if holds == pol {
						walk(b.Succs[0], b, next, depth+1)
					} else {
						walk(b.Succs[1], b, next, depth+1)
					}
					return
				}
			}
			// `cell.Method() == const` (current.Kind() == reflect.Func): asked again later on the path, the answer is
			// the same as long as the cell was not stored to
			if bo, isBo := c.(*ssa.BinOp); isBo && (bo.Op == token.EQL || bo.Op == token.NEQ) {
				if kc, isConst := bo.Y.(*ssa.Const); isConst && kc.Value != nil {
					if call, isCall := bo.X.(*ssa.Call); isCall && call.Common().StaticCallee() != nil && len(call.Common().Args) == 1 {
						// asked of a local cell (answers change when the cell is stored to) or of an SSA value (never)
						var subject ssa.Value = call.Common().Args[0]
						if ld, isLd := subject.(*ssa.UnOp); isLd && ld.Op == token.MUL {
							if cell, isCell := ld.X.(*ssa.Alloc); isCell {
								subject = cell
							} else {
								subject = nil // a load of something else: not tracked
							}
						}
						if subject != nil {
							{
								cell := subject
								k := memKey{cell, 0, call.Common().StaticCallee().Name() + "==" + kc.Value.ExactString()}
								// truth of "== const" on the edge taken when (c == pol)
								eqHolds := func(condTrue bool) bool { return (bo.Op == token.EQL) == condTrue }
								if v, known := mem[k]; known {
									// which successor: Succs[0] is taken when iff.Cond holds, i.e. when c has the value pol
									cIs := v == (bo.Op == token.EQL) // value of c under the fact
									if cIs == pol {
										walk(b.Succs[0], b, next, depth+1)
									} else {
										walk(b.Succs[1], b, next, depth+1)
									}
									return
								}
								mem[k] = eqHolds(pol)
								walk(b.Succs[0], b, next, depth+1)
								mem[k] = eqHolds(!pol)
								walk(b.Succs[1], b, next, depth+1)
								delete(mem, k)
								return
							}
						}
					}
				}
			}
			if u, isU := c.(*ssa.UnOp); isU && u.Op == token.MUL {
				if fa, isFA := u.X.(*ssa.FieldAddr); isFA {
					k := memKey{fa.X, fa.Field, ""}
					if v, known := mem[k]; known {
						if v == pol {
							walk(b.Succs[0], b, next, depth+1)
						} else {
							walk(b.Succs[1], b, next, depth+1)
						}
						return
					}
					// not known yet: each edge of this test says what the field holds (until it is stored again)
					mem[k] = pol
					walk(b.Succs[0], b, next, depth+1)
					mem[k] = !pol
					walk(b.Succs[1], b, next, depth+1)
					delete(mem, k)
					return
				}
			}
			if phi, isPhi := c.(*ssa.Phi); isPhi {
				if v, known := next[phi]; known {
					if v == pol {
						walk(b.Succs[0], b, next, depth+1)
					} else {
						walk(b.Succs[1], b, next, depth+1)
					}
					return
				}
			}
		}
		for _, s := range b.Succs {
			walk(s, b, next, depth+1)
		}
	}
	// the start block is entered on the edge under test: its phis are taken as unknown
	walk(start, startFrom, map[*ssa.Phi]bool{}, 0)
	return !reached
}


// mustPassFromFlagsEdge: as mustPassFromFlags, entering succ from block pred (so that succ's own phis are known).
func mustPassFromFlagsEdge(pred, succ *ssa.BasicBlock, target ssa.Instruction, barrier func(ssa.Instruction) bool) bool {
	// a synthetic walk: start at succ with `from` = pred
	return mustPassFromFlagsFrom(succ, pred, target, barrier)
}

// boolDepthStep: g is a helper of the form `enter(limit) (…, within bool)`: it steps a counter field itself (a store
// field = field + k, k > 0, on every path) and one of its results says whether the counter is within a bound — on
// every return that result is a comparison of the (stepped) field with a constant or with a parameter of g.
type boolStep struct {
	resIdx     int
	withinWhen bool
	field      *ssa.FieldAddr
	boundConst int64
	boundParam *ssa.Parameter
}

func boolDepthStep(p *Prog, g *ssa.Function) (boolStep, bool) {
	var bs boolStep
	if g == nil || g.Blocks == nil || !p.InPkg(g) || g.Parent() != nil || len(g.Blocks) > 16 {
		return bs, false
	}
	fieldOf := func(v ssa.Value) (*ssa.FieldAddr, bool) {
		if u, ok := v.(*ssa.UnOp); ok && u.Op == token.MUL {
			fa, ok := u.X.(*ssa.FieldAddr)
			return fa, ok
		}
		return nil, false
	}
	// the step
	var step *ssa.Store
	for _, b := range g.Blocks {
		for _, in := range b.Instrs {
			st, ok := in.(*ssa.Store)
			if !ok {
				continue
			}
			fa, ok := st.Addr.(*ssa.FieldAddr)
			if !ok {
				continue
			}
			add, ok := st.Val.(*ssa.BinOp)
			if !ok || add.Op != token.ADD {
				continue
			}
			if k, isK := constInt(add.Y); !isK || k <= 0 {
				continue
			}
			if fb, ok := fieldOf(add.X); ok && fb.Field == fa.Field && types.Identical(fb.X.Type(), fa.X.Type()) {
				step = st
				bs.field = fa
			}
		}
	}
	if step == nil {
		return bs, false
	}
	rets := returnsOf(g)
	if len(rets) == 0 {
		return bs, false
	}
	found := false
	for idx := 0; idx < g.Signature.Results().Len(); idx++ {
		if bt, isB := g.Signature.Results().At(idx).Type().Underlying().(*types.Basic); !isB || bt.Kind() != types.Bool {
			continue
		}
		all := true
		for _, ret := range rets {
			bo, ok := res(ret, idx).(*ssa.BinOp)
			if !ok {
				all = false
				break
			}
			fb, isF := fieldOf(bo.X)
			if !isF || fb.Field != bs.field.Field || !types.Identical(fb.X.Type(), bs.field.X.Type()) {
				all = false
				break
			}
			if !MustPass(ret, func(x ssa.Instruction) bool { return x == ssa.Instruction(step) }) {
				all = false
				break
			}
			switch bo.Op {
			case token.LEQ, token.LSS:
				bs.withinWhen = true
			case token.GTR, token.GEQ:
				bs.withinWhen = false
			default:
				all = false
			}
			if k, isK := constInt(bo.Y); isK {
				bs.boundConst = k
			} else if pa, isP := bo.Y.(*ssa.Parameter); isP {
				bs.boundParam = pa
			} else {
				all = false
			}
		}
		if all {
			bs.resIdx = idx
			found = true
			break
		}
	}
	return bs, found
}

// boolStepCond: cond is the `within` result of a call of a bool-form depth step; returns the helper's description.
func boolStepCond(p *Prog, cond ssa.Value) (boolStep, *ssa.Call, bool) {
	v := stripLoad(cond)
	idx := 0
	if ex, ok := v.(*ssa.Extract); ok {
		v, idx = ex.Tuple, ex.Index
	}
	c, ok := v.(*ssa.Call)
	if !ok || c.Common().StaticCallee() == nil {
		return boolStep{}, nil, false
	}
	bs, ok := boolDepthStep(p, c.Common().StaticCallee())
	if !ok || bs.resIdx != idx {
		return boolStep{}, nil, false
	}
	return bs, c, true
}

// R-C01-BALANCE. The nesting counter bounds the parser's recursion only if every function gives back exactly what it
// took: a function that subtracts more than it added makes the counter drift down with every expression that was
// parsed, and a plain sibling in front of a nested part then pays for it — `[0,[0,[0,…]]]` nests without bound. For
// every function of the parser: the constant part of what its deferred closure subtracts from a counter equals the
// constants it adds through depth steps outside loops; a plain decrement `counter -= k` stands behind a step `+ k`
// of the same function.
func ruleC01Balance(p *Prog, a *Anchors, r *Report) {
	r.Begin("R-C01-BALANCE", "a parser function gives back to the nesting counter exactly what it took: the constant part of a deferred decrement equals the depth steps taken outside loops, and every plain decrement stands behind a step of the same size", 4)
	stepConst := func(in ssa.Instruction) (int64, bool) {
		c, ok := in.(*ssa.Call)
		if !ok || c.Common().StaticCallee() == nil || !depthStepFunc(p, c.Common().StaticCallee()) {
			return 0, false
		}
		for _, arg := range c.Common().Args {
			if k, isK := constInt(arg); isK {
				return k, true
			}
		}
		// a step helper without an amount (`enter()`, or a wrapper of the step): what its body adds to the counter
		for _, gb := range c.Common().StaticCallee().Blocks {
			for _, gi := range gb.Instrs {
				if gc, isCall := gi.(*ssa.Call); isCall && gc.Common().StaticCallee() != nil && gc.Common().StaticCallee() != c.Common().StaticCallee() && depthStepFunc(p, gc.Common().StaticCallee()) {
					for _, arg := range gc.Common().Args {
						if k, isK := constInt(arg); isK {
							return k, true
						}
					}
				}
				if st, isSt := gi.(*ssa.Store); isSt {
					if fa, isFA := st.Addr.(*ssa.FieldAddr); isFA {
						if add, isAdd := st.Val.(*ssa.BinOp); isAdd && add.Op == token.ADD {
							if la, _, isL := c01FieldLoad(add.X); isL && la.Field == fa.Field && c01MarkOf(p, fa) == nil {
								if k, isK := constInt(add.Y); isK && k > 0 {
									return k, true
								}
							}
						}
					}
				}
			}
		}
		return 0, false
	}
	// a store `X.f = X.f - v`: the constant part of v
	var decOf func(in ssa.Instruction) (fa *ssa.FieldAddr, k int64, variable bool, ok bool)
	decOf = func(in ssa.Instruction) (fa *ssa.FieldAddr, k int64, variable bool, ok bool) {
		// a call of a small helper that does the subtraction (`p.leave(n)`): judged with the argument in the place of
		// the helper's parameter
		if c, isCall := in.(*ssa.Call); isCall {
			g := c.Common().StaticCallee()
			if g == nil || g.Blocks == nil || !p.InPkg(g) || len(g.Blocks) != 1 || len(g.Blocks[0].Instrs) > 8 {
				return nil, 0, false, false
			}
			for _, gi := range g.Blocks[0].Instrs {
				st, isSt := gi.(*ssa.Store)
				if !isSt {
					continue
				}
				gfa, isFA := st.Addr.(*ssa.FieldAddr)
				sub, isSub := st.Val.(*ssa.BinOp)
				if !isFA || !isSub || sub.Op != token.SUB || !c01AddedSomewhere(p, gfa) {
					continue
				}
				if u, isU := sub.X.(*ssa.UnOp); !isU || u.Op != token.MUL {
					continue
				} else if fb, isFB := u.X.(*ssa.FieldAddr); !isFB || fb.Field != gfa.Field || !types.Identical(fb.X.Type(), gfa.X.Type()) {
					continue
				}
				var v ssa.Value = sub.Y
				if pa, isP := sub.Y.(*ssa.Parameter); isP {
					for i, gp := range g.Params {
						if gp == pa && i < len(c.Common().Args) {
							v = c.Common().Args[i]
						}
					}
				}
				var walk func(v ssa.Value) bool
				walk = func(v ssa.Value) bool {
					if cc, isK := constInt(v); isK {
						k += cc
						return true
					}
					if bo, isBo := v.(*ssa.BinOp); isBo && bo.Op == token.ADD {
						return walk(bo.X) && walk(bo.Y)
					}
					variable = true
					return true
				}
				walk(v)
				return gfa, k, variable, true
			}
			return nil, 0, false, false
		}
		st, isSt := in.(*ssa.Store)
		if !isSt {
			return nil, 0, false, false
		}
		fa, isFA := st.Addr.(*ssa.FieldAddr)
		if !isFA {
			return nil, 0, false, false
		}
		sub, isSub := st.Val.(*ssa.BinOp)
		if !isSub || sub.Op != token.SUB {
			return nil, 0, false, false
		}
		if u, isU := sub.X.(*ssa.UnOp); !isU || u.Op != token.MUL {
			return nil, 0, false, false
		} else if fb, isFB := u.X.(*ssa.FieldAddr); !isFB || fb.Field != fa.Field || !types.Identical(fb.X.Type(), fa.X.Type()) {
			return nil, 0, false, false
		}
		if !c01AddedSomewhere(p, fa) {
			return nil, 0, false, false
		}
		var walk func(v ssa.Value) bool
		walk = func(v ssa.Value) bool {
			if c, isK := constInt(v); isK {
				k += c
				return true
			}
			if bo, isBo := v.(*ssa.BinOp); isBo && bo.Op == token.ADD {
				return walk(bo.X) && walk(bo.Y)
			}
			variable = true
			return true
		}
		walk(sub.Y)
		return fa, k, variable, true
	}
	n := 0
	for _, f := range p.inPkgFuncsSorted(p.allFuncSet()) {
		if f.Parent() != nil || f.Signature.Recv() == nil || structOf(f.Signature.Recv().Type()) == nil || structOf(f.Signature.Recv().Type()).Obj().Name() != "Parser" {
			continue
		}
		// steps outside loops, by constant: calls of the step helper, or the counter incremented in place
		var entrySteps int64
		for _, b := range f.Blocks {
			for _, in := range b.Instrs {
				if innermostLoopHeader(b) != nil {
					continue
				}
				if k, ok := stepConst(in); ok {
					// a step that the function notes in a local count (operands++) is given back through that count
					noted := false
					for _, x := range b.Instrs {
						if st, isSt := x.(*ssa.Store); isSt {
							if cell, isCell := st.Addr.(*ssa.Alloc); isCell && isIntType(cell.Type().(*types.Pointer).Elem()) {
								if add, isAdd := st.Val.(*ssa.BinOp); isAdd && add.Op == token.ADD {
									if u, isU := add.X.(*ssa.UnOp); isU && u.X == ssa.Value(cell) {
										noted = true
									}
								}
							}
						}
					}
					if !noted {
						entrySteps += k
					}
				}
				if st, isSt := in.(*ssa.Store); isSt {
					if fa, isFA := st.Addr.(*ssa.FieldAddr); isFA {
						if add, isAdd := st.Val.(*ssa.BinOp); isAdd && add.Op == token.ADD {
							if u, isU := add.X.(*ssa.UnOp); isU && u.Op == token.MUL {
								if fb, isFB := u.X.(*ssa.FieldAddr); isFB && fb.Field == fa.Field && types.Identical(fb.X.Type(), fa.X.Type()) {
									if k, isK := constInt(add.Y); isK && k > 0 {
										entrySteps += k
									}
								}
							}
						}
					}
				}
			}
		}
		// deferred closures
		for _, b := range f.Blocks {
			for _, in := range b.Instrs {
				d, ok := in.(*ssa.Defer)
				if !ok {
					continue
				}
				mc, ok := d.Call.Value.(*ssa.MakeClosure)
				if !ok {
					continue
				}
				g := mc.Fn.(*ssa.Function)
				for _, gb := range g.Blocks {
					for _, gi := range gb.Instrs {
						if _, k, _, isDec := decOf(gi); isDec {
							n++
							key := p.FuncName(f) + ":deferred-decrement"
							if k == entrySteps {
								r.OK(key, p.InstrPos(gi), "gives back %d plus what its loop counted; took %d outside loops", k, entrySteps)
							} else {
								r.Bad(key, p.InstrPos(gi), "%s gives back %d (plus what its loop counted) to the nesting counter on exit but took only %d through depth steps outside its loops: every expression parsed through it leaves the counter %d lower than it found it, so siblings parsed earlier pay for the nesting of later ones and the bound no longer bounds the recursion", p.FuncName(f), k, entrySteps, k-entrySteps)
							}
						}
					}
				}
			}
		}
		// plain decrements
		for _, b := range f.Blocks {
			for _, in := range b.Instrs {
				if _, k, variable, isDec := decOf(in); isDec && !variable {
					n++
					key := p.FuncName(f) + ":decrement"
					if MustPass(in, func(x ssa.Instruction) bool {
						kk, ok := stepConst(x)
						return ok && kk == k
					}) {
						r.OK(key, p.InstrPos(in), "stands behind a step of the same size")
					} else {
						r.Bad(key, p.InstrPos(in), "%s subtracts %d from the nesting counter on a path on which it did not add %d before", p.FuncName(f), k, k)
					}
				}
			}
		}
	}
	if n == 0 {
		r.Unk("none", "-", "no decrement of a nesting counter found in the parser")
	}
}

// c01AddedSomewhere: some function of the package stores <the same field> + something into the field fa denotes.
func c01AddedSomewhere(p *Prog, fa *ssa.FieldAddr) bool {
	n := structOf(fa.X.Type())
	if n == nil || !isIntType(fa.Type().(*types.Pointer).Elem()) {
		return false
	}
	for _, f := range p.Funcs {
		if !p.InPkg(f) {
			continue
		}
		for _, b := range f.Blocks {
			for _, in := range b.Instrs {
				st, ok := in.(*ssa.Store)
				if !ok {
					continue
				}
				fb, ok := st.Addr.(*ssa.FieldAddr)
				if !ok || fb.Field != fa.Field || structOf(fb.X.Type()) != n {
					continue
				}
				if add, ok := st.Val.(*ssa.BinOp); ok && add.Op == token.ADD {
					if u, ok := add.X.(*ssa.UnOp); ok && u.Op == token.MUL {
						if fc, ok := u.X.(*ssa.FieldAddr); ok && fc.Field == fa.Field && structOf(fc.X.Type()) == n {
							return true
						}
					}
				}
			}
		}
	}
	return false
}
