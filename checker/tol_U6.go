package main

// Shapes recognised after refactoring R17-r1 (`readAndClose(fd)` extracted for the pair io.ReadAll(fd) + closeReader(fd)):
//   - R-C06-SRC follows the result of a package helper back to what its returns deliver (the helper's body is judged
//     like the caller's: a transformation inside it is still a finding);
//   - R-C11-READERR treats a package function that hands the error of a read back as its own error result as a read at
//     its call sites (the error discipline is checked there as well as inside the helper);
//   - R-C04-CLOSE judges a read of a reader PARAMETER when the helper's callers pass a loader's reader: released inside
//     the helper on every path after the read, or else at every call site after the call.

import (
	"go/token"
	"go/types"

	"golang.org/x/tools/go/ssa"
)

// u6ResultSources: c is a static call of a package function with a body; returns what each of its returns (the
// synthetic recover block aside, as in returnsOf) delivers at result index idx. ok is false when the callee cannot be
// looked into.
func u6ResultSources(p *Prog, c *ssa.Call, idx int) (out []ssa.Value, ok bool) {
	if c == nil {
		return nil, false
	}
	callee := c.Common().StaticCallee()
	if callee == nil || callee.Blocks == nil || !p.InPkg(callee) {
		return nil, false
	}
	rets := returnsOf(callee)
	if len(rets) == 0 || !u6LeavesBytesAlone(callee) {
		return nil, false
	}
	for _, ret := range rets {
		if idx < 0 || idx >= len(ret.Results) {
			return nil, false
		}
		out = append(out, ret.Results[idx])
	}
	return out, true
}

// u6LeavesBytesAlone: f neither writes an element of a byte slice/array nor hands a byte slice to anything else
// (copy, append, a library function, another helper) and has no closures: what it returns can be judged by tracing the
// returned value alone, a change of the buffer in place cannot hide in it.
func u6LeavesBytesAlone(f *ssa.Function) bool {
	if len(f.AnonFuncs) > 0 {
		return false
	}
	isBytes := func(T types.Type) bool {
		if pt, ok := T.Underlying().(*types.Pointer); ok {
			T = pt.Elem()
		}
		var el types.Type
		switch u := T.Underlying().(type) {
		case *types.Slice:
			el = u.Elem()
		case *types.Array:
			el = u.Elem()
		default:
			return false
		}
		b, ok := el.Underlying().(*types.Basic)
		return ok && (b.Kind() == types.Uint8 || b.Kind() == types.Int32)
	}
	for _, b := range f.Blocks {
		for _, in := range b.Instrs {
			switch x := in.(type) {
			case *ssa.IndexAddr:
				if isBytes(x.X.Type()) {
					return false
				}
			case ssa.CallInstruction:
				for _, arg := range callArgs(x.Common()) {
					if isBytes(arg.Type()) {
						return false
					}
				}
			}
		}
	}
	return true
}

// u6FlowsToErrorResult: the value v (an error) reaches the error result of a Return of f unchanged: directly, through
// phis or through local cells.
func u6FlowsToErrorResult(f *ssa.Function, v ssa.Value) bool {
	ei := errorResultIndex(f)
	if ei < 0 {
		return false
	}
	seen := map[ssa.Value]bool{}
	found := false
	var walk func(x ssa.Value, d int)
	walk = func(x ssa.Value, d int) {
		if seen[x] || d > 6 || found {
			return
		}
		seen[x] = true
		for _, u := range refs(x) {
			switch y := u.(type) {
			case *ssa.Return:
				if ei < len(y.Results) && y.Results[ei] == x {
					found = true
				}
			case *ssa.Phi:
				walk(y, d+1)
			case *ssa.Store:
				if y.Val != x {
					continue
				}
				if _, isAlloc := y.Addr.(*ssa.Alloc); !isAlloc {
					continue
				}
				for _, lu := range refs(y.Addr) {
					if l, isL := lu.(*ssa.UnOp); isL && l.Op == token.MUL {
						walk(l, d+1)
					}
				}
			}
		}
	}
	walk(v, 0)
	return found
}

// u6ReadErrForwarders: package functions (outside the loaders) that hand the error of a read back as their own error
// result: `buf, err := io.ReadAll(fd); …; return buf, err`. isRead tells the reads the rule starts from; a helper around
// a helper counts too (fixpoint). The caller of such a function is in the position the reading function was in before
// the helper was extracted: it has to look at the error.
func u6ReadErrForwarders(p *Prog, a *Anchors, isRead func(*ssa.Function) bool) map[*ssa.Function]bool {
	fw := map[*ssa.Function]bool{}
	for changed := true; changed; {
		changed = false
		for _, f := range p.inPkgFuncsSorted(p.allFuncSet()) {
			if fw[f] || f.Blocks == nil || implementsLoader(p, a, f) || errorResultIndex(f) < 0 {
				continue
			}
			for _, b := range f.Blocks {
				for _, in := range b.Instrs {
					c, ok := in.(*ssa.Call)
					if !ok || c.Common().StaticCallee() == nil {
						continue
					}
					cal := c.Common().StaticCallee()
					if !isRead(cal) && !fw[cal] {
						continue
					}
					tup, isT := c.Type().(*types.Tuple)
					if !isT || tup.Len() < 2 {
						continue
					}
					n := tup.Len()
					for _, u := range refs(c) {
						if ex, isEx := u.(*ssa.Extract); isEx && ex.Index == n-1 && typeName(ex.Type()) == "error" && u6FlowsToErrorResult(f, ex) {
							if !fw[f] {
								fw[f] = true
								changed = true
							}
						}
					}
				}
			}
		}
	}
	return fw
}

// u6PkgCallResult: v came out of a call of a package function or of a dynamic call (the set's resolver / a loader's
// Get), looking through the extraction from the result tuple and through phis — the test R-C04-CLOSE applies to the
// reader of a read.
func u6PkgCallResult(p *Prog, v ssa.Value) bool {
	src := v
	if ex, isEx := src.(*ssa.Extract); isEx {
		src = ex.Tuple
	}
	if phi, isPhi := src.(*ssa.Phi); isPhi && len(phi.Edges) > 0 {
		for _, e := range phi.Edges {
			if ex, isEx := e.(*ssa.Extract); isEx {
				src = ex.Tuple
			}
		}
	}
	sc, isCall := src.(*ssa.Call)
	if !isCall {
		return false
	}
	if callee := sc.Common().StaticCallee(); callee != nil && !p.InPkg(callee) {
		return false
	}
	return true
}

// u6LoaderReaderSites: rd is a parameter of a package helper (unexported, only called statically from the package);
// returns the call sites at which the helper is handed a reader that came out of a package call (a loader's reader),
// directly or through one more helper level. Empty when rd is not such a parameter.
func u6LoaderReaderSites(p *Prog, rd ssa.Value, depth int) []actualSite {
	pa, ok := rd.(*ssa.Parameter)
	if !ok || depth > 2 {
		return nil
	}
	var out []actualSite
	for _, s := range paramActualSites(p, pa) {
		if u6PkgCallResult(p, s.val) {
			out = append(out, s)
			continue
		}
		out = append(out, u6LoaderReaderSites(p, s.val, depth+1)...)
	}
	return out
}

// u6ReleasedAfter: on every path from the instruction `in` of f to a return, the reader rd is released (or a deferred
// call of f releases it) — the check R-C04-CLOSE makes behind a read, here made behind the call of a reading helper.
func u6ReleasedAfter(p *Prog, in ssa.Instruction, rd ssa.Value) bool {
	f := in.Parent()
	for _, bb := range f.Blocks {
		for _, x := range bb.Instrs {
			if d, isD := x.(*ssa.Defer); isD && closesReader(p, d, rd, 0) {
				return true
			}
		}
	}
	b := in.Block()
	reach := ReachableBlocks(b)
	for _, ret := range returnsOf(f) {
		if !reach[ret.Block()] {
			continue
		}
		if !MustPassFrom(b, indexIn(in), ret, func(x ssa.Instruction) bool { return closesReader(p, x, rd, 0) }) {
			return false
		}
	}
	return true
}
