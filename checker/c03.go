package main

// C03 — sandbox: R-C03-TAG, R-C03-FILTER, R-C03-SET, R-C03-FREEZE.

import (
	"go/ast"
	"go/token"
	"go/types"
	"sort"
	"strings"

	"golang.org/x/tools/go/ssa"
)

func init() { register("C03", checkC03) }

type banAnchors struct {
	tagBan, filterBan, freeze string // field names of TemplateSet
	banTag, banFilter         *ssa.Function
}

func resolveBanAnchors(p *Prog, a *Anchors, r *Report) *banAnchors {
	ba := &banAnchors{banTag: p.Method("TemplateSet", "BanTag"), banFilter: p.Method("TemplateSet", "BanFilter")}
	if ba.banTag == nil || ba.banFilter == nil {
		r.Unk("anchor", "-", "anchor unresolved: exported BanTag/BanFilter")
		return nil
	}
	// ban maps = the TemplateSet map fields updated by BanTag / BanFilter; freeze flag = the bool field read in both
	depthFind := 0
	var find func(f *ssa.Function) (mp string, flags map[string]bool)
	find = func(f *ssa.Function) (mp string, flags map[string]bool) {
		flags = map[string]bool{}
		for _, b := range f.Blocks {
			for _, in := range b.Instrs {
				switch in := in.(type) {
				case *ssa.MapUpdate:
					if _, n, fld := fieldLoadBase(in.Map); n != nil && n.Obj().Name() == "TemplateSet" {
						mp = fld
					}
				case *ssa.UnOp:
					if in.Op == token.MUL {
						if fa, ok := in.X.(*ssa.FieldAddr); ok {
							if n := structOf(fa.X.Type()); n != nil && n.Obj().Name() == "TemplateSet" {
								flags[fieldName(fa.X.Type(), fa.Field)] = true
							}
						}
					}
				case ssa.CallInstruction:
					// predicate wrapper methods of the set (hasCreatedTemplate()): look one level into them
					if cal := in.Common().StaticCallee(); cal != nil && cal.Blocks != nil && cal != f && depthFind < 1 && cal.Signature.Recv() != nil && structOf(cal.Signature.Recv().Type()) != nil && structOf(cal.Signature.Recv().Type()).Obj().Name() == "TemplateSet" {
						depthFind++
						_, sub := find(cal)
						depthFind--
						for k := range sub {
							flags[k] = true
						}
					}
					// atomic.LoadUint32(&set.flag) / (*atomic.Bool).Load
					for _, arg := range in.Common().Args {
						if fa, ok := arg.(*ssa.FieldAddr); ok {
							if n := structOf(fa.X.Type()); n != nil && n.Obj().Name() == "TemplateSet" {
								if c := in.Common().StaticCallee(); c != nil && c.Pkg != nil && c.Pkg.Pkg.Path() == "sync/atomic" {
									flags[fieldName(fa.X.Type(), fa.Field)] = true
								}
							}
						}
					}
				}
			}
		}
		return
	}
	m1, f1 := find(ba.banTag)
	m2, f2 := find(ba.banFilter)
	ba.tagBan, ba.filterBan = m1, m2
	st := a.TemplateSet.Underlying().(*types.Struct)
	for i := 0; i < st.NumFields(); i++ {
		n := st.Field(i).Name()
		if f1[n] && f2[n] && n != m1 && n != m2 {
			if _, isMap := st.Field(i).Type().Underlying().(*types.Map); !isMap {
				ba.freeze = n
			}
		}
	}
	if ba.tagBan == "" || ba.filterBan == "" || ba.tagBan == ba.filterBan {
		r.Unk("anchor", "-", "anchor unresolved: ban maps (TemplateSet map fields updated by BanTag/BanFilter): %q %q", m1, m2)
		return nil
	}
	if ba.freeze == "" {
		r.Unk("anchor", "-", "anchor unresolved: freeze flag (non-map TemplateSet field read in both BanTag and BanFilter)")
		return nil
	}
	return ba
}

// banEdge: the branch establishes "name key is NOT in ban map `field`" : cond = extract(lookup(set.<field>, K, commaok), 1), pol=false.
// keyOK tells whether the looked-up key is acceptable.
func banEdge(field string, keyOK func(k ssa.Value) bool) EdgePred {
	return func(c ssa.Value, pol bool) bool {
		if pol {
			return false
		}
		lk := lookupCommaOk(c)
		if lk == nil {
			// plain lookup of a map[string]bool used as condition
			if l2, ok := c.(*ssa.Lookup); ok && !l2.CommaOk {
				lk = l2
			} else {
				return false
			}
		}
		if !loadsField(lk.X, "TemplateSet", field) {
			return false
		}
		return keyOK(lk.Index)
	}
}

func checkC03(p *Prog, r *Report) {
	liftProg = p
	a := ResolveAnchors(p)
	if !anchorCheck(a, r) {
		return
	}
	r.Begin("R-C03-ANCHORS", "ban maps and freeze flag found by role", 1)
	ba := resolveBanAnchors(p, a, r)
	if ba == nil {
		return
	}
	r.Trivial("anchors", "-", "tag bans=TemplateSet.%s filter bans=TemplateSet.%s freeze flag=TemplateSet.%s", ba.tagBan, ba.filterBan, ba.freeze)
	ruleC03Tag(p, a, ba, r)
	ruleC03Filter(p, a, ba, r)
	ruleC03Set(p, a, r)
	ruleC03Exec(p, a, r)
	ruleC03Freeze(p, a, ba, r)
	ruleC03ArgsConsumed(p, a, r)
}

// R-C03-EXEC: templates that tags execute were compiled by the referring set: a node field assigned from the set's
// From* at parse time, or the fresh result of such a call — never an object taken from package-level state.
func ruleC03Exec(p *Prog, a *Anchors, r *Report) {
	r.Begin("R-C03-EXEC", "every template a tag executes is one the referring set compiled for it (parse-time node field or fresh From* result), never one taken from state shared between sets", 2)
	entry := map[*ssa.Function]bool{}
	for _, f := range a.ExecEntries {
		entry[f] = true
	}
	entry[a.ExecCore] = true
	// also the unexported ways into an execution (executeWriterNested …): methods of *Template taking a Context
	for _, f := range p.Methods(a.Template) {
		for i := 0; i < f.Signature.Params().Len(); i++ {
			if types.Identical(f.Signature.Params().At(i).Type(), a.Context) {
				entry[f] = true
			}
		}
	}
	p.EachInstr(func(f *ssa.Function, in ssa.Instruction) {
		ci, ok := in.(ssa.CallInstruction)
		if !ok || ci.Common().StaticCallee() == nil || !entry[ci.Common().StaticCallee()] {
			return
		}
		top := topLevel(f)
		if recv := top.Signature.Recv(); recv != nil && structOf(recv.Type()) != nil {
			n := structOf(recv.Type()).Obj().Name()
			if n == "Template" || n == "TemplateSet" {
				return // the API itself (variants calling the funnel, Render* shortcuts)
			}
		}
		key := p.FuncName(f) + ":" + ci.Common().StaticCallee().Name()
		rs := p.Roots(ci.Common().Args[0])
		bad := ""
		for _, rt := range rs {
			switch rt.Kind {
			case RGlobal:
				bad = "package-level state " + rt.Name
			case RUnknown:
				bad = "a value of unknown origin (" + rt.Name + ")"
			}
		}
		if bad != "" {
			r.Bad(key, p.InstrPos(in), "the executed template comes from %s: a template compiled by another set (with other bans) can be run", bad)
		} else {
			r.OK(key, p.InstrPos(in), "executed template: %s", rootsString(rs))
		}
	})
}

// R-C03-TAG: every invocation through the parser field of a registry entry is dominated by the ban lookup of
// the same name with an error return on the banned edge.
func ruleC03Tag(p *Prog, a *Anchors, ba *banAnchors, r *Report) {
	r.Begin("R-C03-TAG", "every call through a registry entry's TagParser is reached only on the not-banned edge of a lookup of the same name in the set's tag-ban map, and the banned edge returns an error", 1)
	p.EachInstr(func(f *ssa.Function, in ssa.Instruction) {
		ci, ok := in.(ssa.CallInstruction)
		if !ok {
			return
		}
		cc := ci.Common()
		if cc.IsInvoke() || cc.StaticCallee() != nil {
			return
		}
		n, isNamed := cc.Value.Type().(*types.Named)
		if !isNamed || n.Obj().Name() != "TagParser" {
			return
		}
		key := p.FuncName(f) + ":call TagParser"
		// judged where the value is obtained: here, or — when it is a parameter of a helper — at the helper's call sites
		judgeTagParserUse(p, a, ba, r, key, f, in, cc.Value, 0)
	})
}

// registryLookupKey: v is the entry obtained from `registry[K]` (directly, or via extract of a comma-ok lookup); returns K.
func registryLookupKey(v ssa.Value, reg *ssa.Global) ssa.Value {
	switch x := v.(type) {
	case *ssa.Extract:
		if lk, ok := x.Tuple.(*ssa.Lookup); ok && x.Index == 0 && isLoadOfGlobal(lk.X, reg) {
			return lk.Index
		}
	case *ssa.Lookup:
		if isLoadOfGlobal(x.X, reg) {
			return x.Index
		}
	}
	return nil
}

// isParserTemplateSet: v is <x>.template.set.<field> with x a *Parser or *ExecutionContext (the referring template's set).
func isParserTemplateSet(mapLoad ssa.Value) bool {
	setv, n, _ := fieldLoadBase(mapLoad)
	if n == nil || n.Obj().Name() != "TemplateSet" {
		return false
	}
	return isReferringSet(setv)
}

// isReferringSet: v denotes the set of the template being compiled/executed:
// load <Parser|ExecutionContext>.template.set, or the receiver of a *TemplateSet method.
func isReferringSet(v ssa.Value) bool { return isReferringSetD(v, 0) }

var liftProg *Prog // set by checkC03/C11 so that helper parameters can be resolved at their call sites

func isReferringSetD(v ssa.Value, depth int) bool {
	// a variable captured by a closure: judged by what every creation site of the closure binds to it
	if fv, ok := v.(*ssa.FreeVar); ok && depth < 4 {
		fn := fv.Parent()
		idx := -1
		for i, x := range fn.FreeVars {
			if x == fv {
				idx = i
			}
		}
		if fn.Parent() == nil || idx < 0 {
			return false
		}
		found, all := false, true
		for _, b := range fn.Parent().Blocks {
			for _, in := range b.Instrs {
				mc, ok := in.(*ssa.MakeClosure)
				if !ok || mc.Fn != ssa.Value(fn) || idx >= len(mc.Bindings) {
					continue
				}
				found = true
				bv := mc.Bindings[idx]
				// captured by reference: the binding is the cell; look at what the cell holds
				if al, isAl := bv.(*ssa.Alloc); isAl {
					okCell := false
					for _, u := range refs(al) {
						if st, isSt := u.(*ssa.Store); isSt && st.Addr == ssa.Value(al) {
							okCell = isReferringSetD(st.Val, depth+1)
						}
					}
					if !okCell {
						all = false
					}
					continue
				}
				if !isReferringSetD(bv, depth+1) {
					all = false
				}
			}
		}
		return found && all
	}
	if u, ok := v.(*ssa.UnOp); ok {
		if fv, isFV := u.X.(*ssa.FreeVar); isFV {
			return isReferringSetD(fv, depth)
		}
		// a parameter spilled to a cell because a closure captures it
		if sv := localLoadValue(u); sv != nil && depth < 6 {
			return isReferringSetD(sv, depth+1)
		}
	}
	if pa, ok := v.(*ssa.Parameter); ok {
		if pa.Parent().Signature.Recv() != nil && pa == pa.Parent().Params[0] && structOf(pa.Type()) != nil && structOf(pa.Type()).Obj().Name() == "TemplateSet" {
			return true
		}
		// a helper that is handed the set: every (static) caller must pass the referring set
		if liftProg != nil && depth < 3 && liftProg.staticOnly(pa.Parent(), nil) {
			idx := indexOfParam(pa.Parent(), pa)
			all := true
			for _, e := range liftProg.CG.Nodes[pa.Parent()].In {
				args := callArgs(e.Site.Common())
				if idx >= len(args) || !isReferringSetD(args[idx], depth+1) {
					all = false
				}
			}
			return all
		}
		return false
	}
	tplv, n, fld := fieldLoadBase(v)
	if n == nil || n.Obj().Name() != "Template" || fld != "set" {
		return false
	}
	if pa, ok := tplv.(*ssa.Parameter); ok && structOf(pa.Type()) != nil && structOf(pa.Type()).Obj().Name() == "Template" && pa == pa.Parent().Params[0] {
		return true // a *Template method's own receiver
	}
	_, n2, fld2 := fieldLoadBase(tplv)
	if n2 == nil {
		return false
	}
	if fld2 == "template" {
		return n2.Obj().Name() == "Parser" || n2.Obj().Name() == "ExecutionContext"
	}
	// a node field that remembers the template the node was parsed in
	return liftProg != nil && capturedParserTemplate(liftProg, n2.Obj().Name(), fld2)
}

// R-C03-FILTER
func ruleC03Filter(p *Prog, a *Anchors, ba *banAnchors, r *Report) {
	r.Begin("R-C03-FILTER", "every template-named filter resolution (registry lookup or ApplyFilter with a non-constant name) is tied to a ban check of that name before the name is bound into the compiled tree", 2)
	api := map[string]bool{"FilterExists": true, "RegisterFilter": true, "ReplaceFilter": true, "(*TemplateSet).BanFilter": true, "ApplyFilter": true, "MustApplyFilter": true}
	applyFilter := p.Func("ApplyFilter")
	keyMatches := func(want ssa.Value, resultOf ssa.Value) func(k ssa.Value) bool {
		return func(k ssa.Value) bool {
			if want != nil && p.VN(k) == p.VN(want) {
				return true
			}
			// key is a string field of the struct returned by the lookup function
			if resultOf != nil {
				if base, _, _ := fieldLoadBase(k); base != nil && base == resultOf {
					return true
				}
			}
			return false
		}
	}
	// Class A: registry lookups with a non-constant key outside the registry API
	p.EachInstr(func(f *ssa.Function, in ssa.Instruction) {
		lk, ok := in.(*ssa.Lookup)
		if !ok || !isLoadOfGlobal(lk.X, a.FilterRegistry) {
			return
		}
		fname := p.FuncName(f)
		if api[fname] {
			return
		}
		key := fname + ":registry lookup"
		pos := p.InstrPos(in)
		if _, isConst := constString(lk.Index); isConst {
			r.Trivial(key+":const", pos, "engine-internal use of a constant filter name")
			return
		}
		// (a) every success return of f is behind the ban check
		rets := successReturns(f)
		okHere := len(rets) > 0
		for _, ret := range rets {
			if !Guarded(ret, banEdge(ba.filterBan, keyMatches(lk.Index, nil))) {
				okHere = false
			}
		}
		if okHere {
			r.OK(key, pos, "every successful return passes !banned(%s)", p.VN(lk.Index))
			return
		}
		// (b) every caller checks the returned call before binding it
		callers := p.Callers(p.CG, f)
		if len(callers) == 0 {
			r.Bad(key, pos, "filter name %s is resolved without a ban check and the function has no callers that could check it", p.VN(lk.Index))
			return
		}
		for _, e := range callers {
			g := e.Site.Parent()
			cv, isCall := e.Site.(*ssa.Call)
			ckey := fname + "←" + p.FuncName(g)
			if !isCall {
				r.Bad(ckey, p.InstrPos(e.Site), "result of %s used through go/defer", fname)
				continue
			}
			var res ssa.Value = cv
			if f.Signature.Results().Len() > 1 {
				res = nil
				for _, u := range refs(cv) {
					if ex, ok := u.(*ssa.Extract); ok && ex.Index == 0 {
						res = ex
					}
				}
			}
			if res == nil {
				r.Trivial(ckey, p.InstrPos(cv), "result unused")
				continue
			}
			bad := ""
			nb := 0
			for _, u := range refs(res) {
				if !bindingUse(u, res) {
					continue
				}
				nb++
				if !Guarded(u, banEdge(ba.filterBan, keyMatches(nil, res))) {
					bad = p.InstrPos(u)
				}
			}
			if bad != "" {
				r.Bad(ckey, bad, "%s binds the filter returned by %s into the tree without passing !banned(<result>.name) in set.%s", p.FuncName(g), fname, ba.filterBan)
			} else {
				r.OK(ckey, p.InstrPos(cv), "%d binding use(s) of the parsed filter are reached only on the not-banned edge", nb)
			}
		}
	})
	// Class B: ApplyFilter(name) with a name loaded from a node field: the store of that field must be checked
	if applyFilter == nil {
		r.Unk("anchor", "-", "anchor unresolved: ApplyFilter")
		return
	}
	type fieldRef struct{ typ, field string }
	fields := map[fieldRef]bool{}
	p.EachInstr(func(f *ssa.Function, in ssa.Instruction) {
		ci, ok := in.(ssa.CallInstruction)
		if !ok || ci.Common().StaticCallee() != applyFilter {
			return
		}
		nameArg := ci.Common().Args[0]
		key := p.FuncName(f) + ":ApplyFilter"
		if s, isConst := constString(nameArg); isConst {
			r.Trivial(key+":"+s, p.InstrPos(in), "engine-internal constant filter name %q", s)
			return
		}
		if api[p.FuncName(f)] {
			return
		}
		_, n, fld := fieldLoadBase(nameArg)
		if n == nil {
			r.Unk(key, p.InstrPos(in), "ApplyFilter is called with a computed name (%s) that is not a node field; its origin cannot be tied to a ban check", p.VN(nameArg))
			return
		}
		fields[fieldRef{n.Obj().Name(), fld}] = true
		r.Trivial(key+":"+n.Obj().Name()+"."+fld, p.InstrPos(in), "name comes from %s.%s; obligation moves to the stores of that field", n.Obj().Name(), fld)
	})
	for fr := range fields {
		n := 0
		p.EachInstr(func(f *ssa.Function, in ssa.Instruction) {
			st, ok := in.(*ssa.Store)
			if !ok || !isFieldAddrOf(st.Addr, fr.typ, fr.field) {
				return
			}
			n++
			key := p.FuncName(f) + ":store " + fr.typ + "." + fr.field
			// every path from the store to a successful return passes the not-banned edge for the stored name
			bad := ""
			for _, ret := range successReturns(f) {
				if !ReachesFromInstr(in, ret) {
					continue
				}
				if !GuardedFromInstr(in, ret, banEdge(ba.filterBan, func(k ssa.Value) bool {
					if p.VN(k) == p.VN(st.Val) {
						return true
					}
					// k = load of the very field we stored
					if b, nn, ff := fieldLoadBase(k); b != nil && nn != nil && nn.Obj().Name() == fr.typ && ff == fr.field {
						return true
					}
					return false
				})) && !Guarded(in, banEdge(ba.filterBan, func(k ssa.Value) bool { return p.VN(k) == p.VN(st.Val) })) {
					bad = p.InstrPos(ret)
				}
			}
			if bad != "" {
				r.Bad(key, p.InstrPos(in), "a template-supplied filter name is stored for later ApplyFilter and the parser can return successfully (at %s) without having checked it against set.%s: a banned filter runs", bad, ba.filterBan)
			} else {
				r.OK(key, p.InstrPos(in), "the stored name is checked against set.%s before every successful return", ba.filterBan)
			}
		})
		if n == 0 {
			r.Unk("stores of "+fr.typ+"."+fr.field, "-", "no store of the field found")
		}
	}
}

// bindingUse: instruction u makes value v part of something longer-lived (store, return, append/call argument, interface).
func bindingUse(u ssa.Instruction, v ssa.Value) bool {
	switch u := u.(type) {
	case *ssa.Store:
		return u.Val == v
	case *ssa.Return:
		return true
	case *ssa.MakeInterface, *ssa.MapUpdate, *ssa.Send:
		return true
	case ssa.CallInstruction:
		return true
	case *ssa.Phi:
		return true
	}
	return false
}

// GuardedFromInstr: every path from just after `from` to `target` takes an edge satisfying pred.
func GuardedFromInstr(from ssa.Instruction, target ssa.Instruction, pred EdgePred) bool {
	fb, tb := from.Block(), target.Block()
	if fb == tb && instrIndex(from) < instrIndex(target) {
		return false
	}
	seen := map[*ssa.BasicBlock]bool{}
	var work []*ssa.BasicBlock
	push := func(b *ssa.BasicBlock, i int) {
		if edgeEstablishes(b, i, pred) {
			return
		}
		s := b.Succs[i]
		if !seen[s] {
			seen[s] = true
			work = append(work, s)
		}
	}
	for i := range fb.Succs {
		push(fb, i)
	}
	for len(work) > 0 {
		b := work[len(work)-1]
		work = work[:len(work)-1]
		if b == tb {
			return false
		}
		for i := range b.Succs {
			push(b, i)
		}
	}
	return true
}

// R-C03-SET: sub-templates compile in the referring set.
func ruleC03Set(p *Prog, a *Anchors, r *Report) {
	r.Begin("R-C03-SET", "sub-templates (include, extends, import, ssi, lazy include) are compiled by the referring template's own set; the default-set shortcuts are not used inside the engine; Template objects are only constructed by the set's From* methods", 6)
	compileMethods := map[*ssa.Function]bool{}
	for _, f := range a.CompileEntries {
		compileMethods[f] = true
	}
	if fc := p.Method("TemplateSet", "FromCache"); fc != nil {
		compileMethods[fc] = true
	}
	for f := range a.FileLoaders {
		compileMethods[f] = true
	}
	p.EachInstr(func(f *ssa.Function, in ssa.Instruction) {
		ci, ok := in.(ssa.CallInstruction)
		if !ok {
			return
		}
		callee := ci.Common().StaticCallee()
		if callee == nil {
			// calls through the package-level function variables (FromFile = DefaultSet.FromFile)
			if u, ok := ci.Common().Value.(*ssa.UnOp); ok && u.Op == token.MUL {
				if g, ok := u.X.(*ssa.Global); ok && g.Pkg == p.SPkg {
					if sig, ok := g.Type().(*types.Pointer).Elem().Underlying().(*types.Signature); ok && sig.Results().Len() > 0 {
						if types.Identical(sig.Results().At(0).Type(), types.NewPointer(a.Template)) || strings.HasPrefix(g.Name(), "Render") {
							r.Bad(p.FuncName(f)+":call "+g.Name(), p.InstrPos(in), "engine code compiles through the default-set shortcut %s: the sub-template escapes the referring set's sandbox", g.Name())
						}
					}
				}
			}
			return
		}
		if callee == a.NewTemplate || (callee.Name() == "newTemplateString" && p.InPkg(callee)) {
			key := p.FuncName(f) + ":call " + callee.Name()
			top := topLevel(f)
			// an unexported method of the set that constructs the template for its own receiver (the loader behind
			// FromFile that tag parsers use for nested loads): the set association holds by construction, and it is
			// only reachable from a compile that an exported entry (which freezes the set) has started
			internalLoader := false
			if recv := top.Signature.Recv(); recv != nil && structOf(recv.Type()) == a.TemplateSet && (top.Object() == nil || !top.Object().Exported()) && len(ci.Common().Args) > 0 {
				if pa, isParam := ci.Common().Args[0].(*ssa.Parameter); isParam && pa == top.Params[0] {
					internalLoader = true
				}
			}
			if !compileMethods[top] && !(top.Name() == "newTemplateString") && !internalLoader {
				r.Bad(key, p.InstrPos(in), "a Template is constructed outside the set's From* methods (in %s): the freeze flag and the set association are bypassed", p.FuncName(f))
				return
			}
			if !isReferringSet(ci.Common().Args[0]) {
				if pa, ok := ci.Common().Args[0].(*ssa.Parameter); ok && top.Name() == "newTemplateString" && pa == top.Params[0] {
					r.OK(key, p.InstrPos(in), "set parameter passed through")
					return
				}
				r.Bad(key, p.InstrPos(in), "the new template's set is %s, not the receiver set", p.VN(ci.Common().Args[0]))
				return
			}
			r.OK(key, p.InstrPos(in), "constructed by %s with the receiver set", p.FuncName(top))
			return
		}
		if !compileMethods[callee] {
			return
		}
		key := p.FuncName(f) + ":call " + callee.Name()
		recv := ci.Common().Args[0]
		if isReferringSet(recv) {
			r.OK(key, p.InstrPos(in), "receiver is the referring template's set (%s)", p.VN(recv))
		} else {
			r.Bad(key, p.InstrPos(in), "sub-template compiled by %s which is not the referring template's set: bans of the referring set do not apply", p.VN(recv))
		}
	})
	// references to DefaultSet / the shortcut variables in non-test package code (AST level: also catches method values)
	shortcuts := map[types.Object]bool{}
	for _, name := range []string{"DefaultSet", "FromString", "FromBytes", "FromFile", "FromCache", "RenderTemplateString", "RenderTemplateFile", "DefaultLoader", "Globals"} {
		if o := p.Pkg.Types.Scope().Lookup(name); o != nil {
			if _, isVar := o.(*types.Var); isVar {
				shortcuts[o] = true
			}
		}
	}
	for _, file := range p.Pkg.Syntax {
		ast.Inspect(file, func(n ast.Node) bool {
			id, ok := n.(*ast.Ident)
			if !ok {
				return true
			}
			obj := p.Pkg.TypesInfo.Uses[id]
			if obj == nil || !shortcuts[obj] {
				return true
			}
			// allowed only inside the package-level var block that defines them
			encl := enclosingFuncName(p, file, id.Pos())
			if encl == "" {
				r.Trivial("pkgvar:"+id.Name, p.Pos(id.Pos()), "definition of the default-set shortcuts")
			} else {
				r.Bad(encl+":uses "+id.Name, p.Pos(id.Pos()), "engine function %s refers to the default set (%s): templates of other sets would be compiled/resolved outside their sandbox", encl, id.Name)
			}
			return true
		})
	}
}

func enclosingFuncName(p *Prog, file *ast.File, pos token.Pos) string {
	for _, d := range file.Decls {
		if fd, ok := d.(*ast.FuncDecl); ok && fd.Pos() <= pos && pos <= fd.End() {
			if fd.Recv != nil && len(fd.Recv.List) > 0 {
				return "(" + types.ExprString(fd.Recv.List[0].Type) + ")." + fd.Name.Name
			}
			return fd.Name.Name
		}
	}
	return ""
}

// R-C03-FREEZE
func ruleC03Freeze(p *Prog, a *Anchors, ba *banAnchors, r *Report) {
	r.Begin("R-C03-FREEZE", "ban maps are written only by BanTag/BanFilter behind the freeze, existence and duplicate tests; every template-creating method sets the freeze flag before constructing a template", 8)
	// (i) who writes the ban maps
	for _, f := range p.Funcs {
		for _, e := range p.directEffects(f) {
			if e.Target.Type != "TemplateSet" || (e.Target.Field != ba.tagBan && e.Target.Field != ba.filterBan) {
				continue
			}
			key := p.FuncName(f) + ":" + e.Kind + " " + e.Target.Field
			switch {
			case e.Kind == "store" && allFresh(e.Roots):
				r.OK(key, p.InstrPos(e.Instr), "constructor initialises the map of a fresh set")
			case f == ba.banTag && e.Target.Field == ba.tagBan, f == ba.banFilter && e.Target.Field == ba.filterBan:
				r.OK(key, p.InstrPos(e.Instr), "the exported ban function")
			default:
				r.Bad(key, p.InstrPos(e.Instr), "the ban map %s is written outside BanTag/BanFilter: bans can change after templates were compiled", e.Target.Field)
			}
		}
	}
	// (ii) guards inside BanTag / BanFilter
	for _, bf := range []struct {
		f   *ssa.Function
		fld string
		reg *ssa.Global
	}{{ba.banTag, ba.tagBan, a.TagRegistry}, {ba.banFilter, ba.filterBan, a.FilterRegistry}} {
		name := p.FuncName(bf.f)
		for _, b := range bf.f.Blocks {
			for _, in := range b.Instrs {
				mu, ok := in.(*ssa.MapUpdate)
				if !ok || !loadsField(mu.Map, "TemplateSet", bf.fld) {
					continue
				}
				pos := p.InstrPos(in)
				frozen := Guarded(in, func(c ssa.Value, pol bool) bool {
					return !pol && isFreezeRead(c, ba.freeze)
				})
				exists := Guarded(in, func(c ssa.Value, pol bool) bool {
					if call, ok := c.(*ssa.Call); ok && pol && call.Common().StaticCallee() != nil && existsPredicate(p, call.Common().StaticCallee(), bf.reg) && p.VN(call.Common().Args[0]) == p.VN(mu.Key) {
						return true
					}
					lk := lookupCommaOk(c)
					return pol && lk != nil && isLoadOfGlobal(lk.X, bf.reg) && p.VN(lk.Index) == p.VN(mu.Key)
				})
				dup := Guarded(in, banEdge(bf.fld, func(k ssa.Value) bool { return p.VN(k) == p.VN(mu.Key) }))
				for _, g := range []struct {
					ok   bool
					what string
					msg  string
				}{{frozen, "not-frozen", "the update is reachable after the first template was created (freeze flag not tested before it)"},
					{exists, "exists", "an unknown name can be banned (registry existence not tested before the update)"},
					{dup, "not-duplicate", "a duplicate ban is not refused"}} {
					if g.ok {
						r.OK(name+":"+g.what, pos, "update reached only on the %s edge", g.what)
					} else {
						r.Bad(name+":"+g.what, pos, "%s", g.msg)
					}
				}
			}
		}
		// refused attempts change nothing and return an error: the frozen edge returns only errors
		for _, b := range bf.f.Blocks {
			if len(b.Instrs) == 0 {
				continue
			}
			iff, ok := b.Instrs[len(b.Instrs)-1].(*ssa.If)
			if !ok {
				continue
			}
			c, pol := normCond(iff.Cond, true)
			if isFreezeRead(c, ba.freeze) {
				idx := 0
				if !pol {
					idx = 1
				}
				if errorReturnsOnly(bf.f, b.Succs[idx]) {
					r.OK(name+":frozen-refuses", p.InstrPos(iff), "after the first template, the call returns an error on every path")
				} else {
					r.Bad(name+":frozen-refuses", p.InstrPos(iff), "the frozen edge does not end in an error return")
				}
			}
		}
	}
	// (iii) every exported template-creating method sets the flag before any template is constructed — by itself or
	// in the (unexported) helpers it constructs through
	isCtor := func(c *ssa.Function) bool {
		return c != nil && (c == a.NewTemplate || (p.InPkg(c) && c.Name() == "newTemplateString"))
	}
	// functions of the package that may construct a template through static calls
	mayConstruct := map[*ssa.Function]bool{}
	for changed := true; changed; {
		changed = false
		for _, f := range p.Funcs {
			if mayConstruct[f] || f.Blocks == nil || !p.InPkg(f) {
				continue
			}
			for _, b := range f.Blocks {
				for _, in := range b.Instrs {
					if ci, ok := in.(ssa.CallInstruction); ok {
						if c := ci.Common().StaticCallee(); c != nil && (isCtor(c) || mayConstruct[c]) && !mayConstruct[f] {
							mayConstruct[f] = true
							changed = true
						}
					}
				}
			}
		}
	}
	isEntry := map[*ssa.Function]bool{}
	for _, f := range a.CompileEntries {
		isEntry[f] = true
	}
	// unfrozen(f): a constructing call in f (or below, through unexported helpers) that is not preceded on every path
	// by the freeze store
	var unfrozen func(f *ssa.Function, seen map[*ssa.Function]bool) (ssa.Instruction, int)
	unfrozen = func(f *ssa.Function, seen map[*ssa.Function]bool) (ssa.Instruction, int) {
		if seen[f] {
			return nil, 0
		}
		seen[f] = true
		n := 0
		for _, b := range f.Blocks {
			for _, in := range b.Instrs {
				ci, ok := in.(ssa.CallInstruction)
				if !ok {
					continue
				}
				c := ci.Common().StaticCallee()
				if c == nil || !(isCtor(c) || mayConstruct[c]) {
					continue
				}
				n++
				if MustPass(in, func(x ssa.Instruction) bool { return isFreezeSet(x, ba.freeze) }) {
					continue
				}
				if isCtor(c) {
					return in, n
				}
				if isEntry[c] {
					continue // judged as an entry of its own
				}
				if bad, _ := unfrozen(c, seen); bad != nil {
					return bad, n
				}
			}
		}
		return nil, n
	}
	for _, f := range a.CompileEntries {
		name := p.FuncName(f)
		if !mayConstruct[f] {
			continue
		}
		bad, n := unfrozen(f, map[*ssa.Function]bool{})
		switch {
		case bad != nil:
			r.Bad(name+":sets-freeze", p.InstrPos(bad), "a template can be constructed (at %s, reached from %s) without the freeze flag having been set: BanTag/BanFilter calls are still accepted after this set has created a template", p.InstrPos(bad), name)
		case n == 0:
			r.Trivial(name+":sets-freeze", p.Pos(f.Pos()), "constructs no template")
		default:
			r.OK(name+":sets-freeze", p.Pos(f.Pos()), "the freeze flag is set on every path before a template is constructed, here or in the helper/entry it constructs through")
		}
	}
}

// isFreezeRead: c reads the freeze flag: load of the field, or atomic load of it (possibly compared with 0/1).
func isFreezeRead(c ssa.Value, field string) bool {
	return isFreezeReadD(c, field, 0)
}

func isFreezeReadD(c ssa.Value, field string, depth int) bool {
	if loadsField(c, "TemplateSet", field) {
		return true
	}
	// a small predicate method wrapping the read: every return value is itself a read of the flag
	if call, ok := c.(*ssa.Call); ok && depth < 2 {
		if cal := call.Common().StaticCallee(); cal != nil && cal.Blocks != nil && cal.Pkg != nil && cal.Pkg.Pkg.Path() != "sync/atomic" && len(cal.Blocks) <= 3 {
			rets := returnsOf(cal)
			all := len(rets) > 0
			for _, ret := range rets {
				if len(ret.Results) != 1 || !isFreezeReadD(res(ret, 0), field, depth+1) {
					all = false
				}
			}
			if all {
				return true
			}
		}
	}
	if b, ok := c.(*ssa.BinOp); ok {
		return isFreezeReadD(b.X, field, depth) || isFreezeReadD(b.Y, field, depth)
	}
	if call, ok := c.(*ssa.Call); ok {
		if cal := call.Common().StaticCallee(); cal != nil && cal.Pkg != nil && cal.Pkg.Pkg.Path() == "sync/atomic" {
			for _, a := range call.Common().Args {
				if isFieldAddrOf(a, "TemplateSet", field) {
					return true
				}
			}
		}
	}
	return false
}

// isFreezeSet: instruction stores true into the flag (plain store of constant true, or atomic store of non-zero).
func isFreezeSet(x ssa.Instruction, field string) bool {
	return isFreezeSetD(x, field, 0)
}

func isFreezeSetD(x ssa.Instruction, field string, depth int) bool {
	// a small helper whose every path sets the flag
	if ci, ok := x.(ssa.CallInstruction); ok && depth < 2 {
		if cal := ci.Common().StaticCallee(); cal != nil && cal.Blocks != nil && cal.Pkg != nil && cal.Pkg.Pkg.Path() != "sync/atomic" {
			rets := returnsOf(cal)
			all := len(rets) > 0
			for _, ret := range rets {
				if !MustPass(ret, func(y ssa.Instruction) bool { return isFreezeSetD(y, field, depth+1) }) {
					all = false
				}
			}
			if all {
				return true
			}
		}
	}
	switch x := x.(type) {
	case *ssa.Store:
		if isFieldAddrOf(x.Addr, "TemplateSet", field) {
			if b, ok := constBool(x.Val); ok && b {
				return true
			}
		}
	case ssa.CallInstruction:
		cal := x.Common().StaticCallee()
		if cal != nil && cal.Pkg != nil && cal.Pkg.Pkg.Path() == "sync/atomic" && strings.HasPrefix(cal.Name(), "Store") {
			args := x.Common().Args
			if len(args) >= 2 && isFieldAddrOf(args[0], "TemplateSet", field) {
				if k, ok := constInt(args[1]); ok && k != 0 {
					return true
				}
				if b, ok := constBool(args[1]); ok && b {
					return true
				}
			}
		}
	}
	return false
}

// ruleC03ArgsConsumed: "no matter where it is written (… tag arguments …)": a tag parser that returns a node without
// having looked at all of its arguments lets whatever stands in the rest compile unseen — a banned filter in
// {% include "missing" if_exists with a=x|upper %} when the parser returns its empty node as soon as the file turns out
// to be missing. Every successful return of a registered tag parser is reached only after the argument parser was asked
// whether anything remains (the "malformed arguments" test every tag ends with).
func ruleC03ArgsConsumed(p *Prog, a *Anchors, r *Report) {
	ruleTagArgsConsumed(p, a, r, "R-C03-ARGS")
}

// ruleTagArgsConsumed: shared by C03 (a banned name in a part of a tag nobody parses) and C19 (an unregistered name
// there): every part of a tag's arguments is looked at.
func ruleTagArgsConsumed(p *Prog, a *Anchors, r *Report, rule string) {
	r.Begin(rule, "every registered tag parser asks its argument parser whether tokens remain (arguments.Remaining/Count) on every path to a successful return, and looks at the arguments of every intermediate/closing tag on every path: no part of a tag's arguments compiles unseen", 10)
	names := make([]string, 0, len(a.TagParsers))
	for n := range a.TagParsers {
		names = append(names, n)
	}
	sort.Strings(names)
	for _, name := range names {
		f := a.TagParsers[name]
		if f == nil || f.Blocks == nil || len(f.Params) < 3 {
			continue
		}
		args := f.Params[len(f.Params)-1]
		asksRemaining := func(x ssa.Instruction) bool {
			c, ok := x.(*ssa.Call)
			if !ok || c.Common().StaticCallee() == nil || len(c.Common().Args) == 0 {
				return false
			}
			nm := c.Common().StaticCallee().Name()
			return (nm == "Remaining" || nm == "Count") && stripLoad(c.Common().Args[0]) == ssa.Value(args)
		}
		bad := ""
		n := 0
		for _, ret := range returnsOf(f) {
			if len(ret.Results) != 2 || !isNilConst(res(ret, 1)) || isNilConst(res(ret, 0)) {
				continue
			}
			n++
			if !MustPass(ret, asksRemaining) {
				bad = p.InstrPos(ret)
			}
		}
		// … and the arguments of its intermediate and closing tags ({% endfilter x|banned %}): the parser that
		// WrapUntilTag hands back for them is looked at (Count/Remaining, or handed to a parsing method), never dropped
		nWrap := 0
		for _, b := range f.Blocks {
			for _, in := range b.Instrs {
				c, ok := in.(*ssa.Call)
				if !ok || c.Common().StaticCallee() == nil || c.Common().StaticCallee().Name() != "WrapUntilTag" || !p.InPkg(c.Common().StaticCallee()) {
					continue
				}
				nWrap++
				wkey := "tag " + name + ":closing-arguments"
				if nWrap > 1 {
					wkey += "#" + itoa(int64(nWrap))
				}
				used := false
				for _, ref := range *c.Referrers() {
					ex, isEx := ref.(*ssa.Extract)
					if !isEx || ex.Index != 1 {
						continue
					}
					var uses func(v ssa.Value, depth int) bool
					uses = func(v ssa.Value, depth int) bool {
						if depth > 3 {
							return false
						}
						for _, r2 := range *v.Referrers() {
							switch x := r2.(type) {
							case *ssa.Call:
								if x.Common().StaticCallee() != nil {
									return true // a method of the argument parser, or a function it is handed to
								}
							case *ssa.Phi:
								if uses(x, depth+1) {
									return true
								}
							case *ssa.Store:
								// kept in a local cell: the loads of the cell
								if al, isAl := x.Addr.(*ssa.Alloc); isAl {
									for _, r3 := range *al.Referrers() {
										if u, isU := r3.(*ssa.UnOp); isU && uses(u, depth+1) {
											return true
										}
									}
								}
							}
						}
						return false
					}
					if uses(ex, 0) && c3LookedAtOnEveryPath(f, c, ex) {
						used = true
					}
				}
				if used {
					r.OK(wkey, p.InstrPos(in), "the arguments of the intermediate/closing tag are looked at")
				} else {
					r.Bad(wkey, p.InstrPos(in), "the parser of `%s` drops the argument parser of an intermediate/closing tag on some path to a successful return (never used, or overwritten by the next WrapUntilTag before anyone looked at it): what is written there ({%% end%s x|banned_filter %%}) compiles unseen", name, name)
				}
			}
		}
		key := "tag " + name + ":arguments-consumed"
		switch {
		case bad != "":
			r.Bad(key, bad, "the parser of `%s` can return a node without having asked whether arguments remain: what stands in the rest of the tag (a banned filter, a syntax error) compiles unseen on that path", name)
		case n == 0:
			r.Trivial(key, p.Pos(f.Pos()), "no successful return")
		default:
			r.OK(key, p.Pos(f.Pos()), "%d successful return(s), each after the remaining-arguments test", n)
		}
	}
}

// c3LookedAtOnEveryPath: on every path from the call to a successful return of f (a node and a nil error), the
// value ex (a result of the call) is handed to some call — as it is, through the phis the path actually takes, or
// through a local cell — before the return. A value that is overwritten by a later assignment on some path (the
// phi takes the other edge there) was not looked at on that path.
func c3LookedAtOnEveryPath(f *ssa.Function, call *ssa.Call, ex *ssa.Extract) bool {
	type state struct {
		b, from *ssa.BasicBlock
		sig     string
	}
	seen := map[state]bool{}
	ok := true
	success := func(ret *ssa.Return) bool {
		return len(ret.Results) == 2 && isNilConst(res(ret, 1)) && !isNilConst(res(ret, 0))
	}
	var walk func(b, from *ssa.BasicBlock, startIdx int, alias map[ssa.Value]bool, cells map[*ssa.Alloc]bool, depth int)
	walk = func(b, from *ssa.BasicBlock, startIdx int, alias map[ssa.Value]bool, cells map[*ssa.Alloc]bool, depth int) {
		if !ok || depth > 300 {
			return
		}
		al2 := map[ssa.Value]bool{}
		for k := range alias {
			al2[k] = true
		}
		ce2 := map[*ssa.Alloc]bool{}
		for k := range cells {
			ce2[k] = true
		}
		if from != nil && startIdx == 0 {
			idx := -1
			for i, pr := range b.Preds {
				if pr == from {
					idx = i
				}
			}
			for _, in := range b.Instrs {
				phi, isPhi := in.(*ssa.Phi)
				if !isPhi {
					break
				}
				delete(al2, phi)
				if idx >= 0 && idx < len(phi.Edges) && alias[phi.Edges[idx]] {
					al2[phi] = true
				}
			}
		}
		var names []string
		for k := range al2 {
			names = append(names, k.Name())
		}
		for k := range ce2 {
			names = append(names, "&"+k.Name())
		}
		sortStrings(names)
		st := state{b, from, strings.Join(names, ",")}
		if startIdx == 0 {
			if seen[st] {
				return
			}
			seen[st] = true
		}
		for i := startIdx; i < len(b.Instrs); i++ {
			switch x := b.Instrs[i].(type) {
			case *ssa.Call:
				if x.Common().StaticCallee() != nil || x.Common().IsInvoke() {
					for _, arg := range callArgs(x.Common()) {
						if al2[arg] {
							return // looked at on this path
						}
					}
				}
			case *ssa.Store:
				if cell, isCell := x.Addr.(*ssa.Alloc); isCell {
					if al2[x.Val] {
						ce2[cell] = true
					} else {
						delete(ce2, cell) // overwritten
					}
				}
			case *ssa.UnOp:
				if cell, isCell := x.X.(*ssa.Alloc); isCell && ce2[cell] {
					al2[x] = true
				}
			case *ssa.Return:
				if success(x) {
					ok = false
				}
				return
			}
		}
		for _, s := range b.Succs {
			walk(s, b, 0, al2, ce2, depth+1)
		}
	}
	walk(ex.Block(), nil, instrIndex(ex)+1, map[ssa.Value]bool{ex: true}, map[*ssa.Alloc]bool{}, 0)
	return ok
}
