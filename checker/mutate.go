package main

// mutate.go: mutation self-validation of the checker (thorough tier, and a developer tool).
// Mutants are small textual patches of /repo's sources, applied IN MEMORY through packages.Config.Overlay,
// one subprocess per mutant. They say something about the checker, not about /repo, so they never produce
// a VIOLATION line: results go to the evidence (mutants_applied / killed / survived / skipped).

import (
	"encoding/json"
	"fmt"
	"os"
	"os/exec"
	"path/filepath"
	"sort"
	"strings"
	"sync"
)

type Mutant struct {
	ID         string `json:"id"`
	Property   string `json:"property"`
	ExpectRule string `json:"expect_rule"` // prefix of the rule id that must report a new failing obligation
	File       string `json:"file"`
	Old        string `json:"old"`
	New        string `json:"new"`
	Note       string `json:"note"`
	Old2       string `json:"old2,omitempty"` // optional second hunk in the same file (e.g. an import)
	New2       string `json:"new2,omitempty"`
	Old3       string `json:"old3,omitempty"`
	New3       string `json:"new3,omitempty"`
}

type mutantResult struct {
	ID      string   `json:"id"`
	Applied bool     `json:"applied"`
	Error   string   `json:"error,omitempty"`
	Failing []string `json:"failing"` // "rule|key"
}

func loadMutants(verifDir string) ([]Mutant, error) {
	b, err := os.ReadFile(filepath.Join(verifDir, "mutants.json"))
	if err != nil {
		if os.IsNotExist(err) {
			return nil, nil
		}
		return nil, err
	}
	var ms []Mutant
	if err := json.Unmarshal(b, &ms); err != nil {
		return nil, fmt.Errorf("mutants.json: %v", err)
	}
	return ms, nil
}

func failingKeys(r *Report) []string {
	var out []string
	for _, ob := range r.Obligs {
		if ob.Verdict == Violated || ob.Verdict == Undecided {
			out = append(out, ob.Rule+"|"+ob.Key)
		}
	}
	sort.Strings(out)
	return out
}

// runMutantChild is the subprocess body: apply one mutant through the overlay, run the property's rules,
// print one JSON line.
func runMutantChild(o *RunOpts, id string) int {
	res := mutantResult{ID: id}
	emit := func() int {
		b, _ := json.Marshal(res)
		fmt.Println("MUTANT-RESULT " + string(b))
		return 0
	}
	ms, err := loadMutants(o.VerifDir)
	if err != nil {
		res.Error = err.Error()
		return emit()
	}
	var m *Mutant
	for i := range ms {
		if ms[i].ID == id {
			m = &ms[i]
		}
	}
	if m == nil {
		res.Error = "unknown mutant"
		return emit()
	}
	path := filepath.Join(o.Repo, m.File)
	src, err := os.ReadFile(path)
	if err != nil {
		res.Error = err.Error()
		return emit()
	}
	if strings.Count(string(src), m.Old) != 1 {
		res.Error = fmt.Sprintf("patch context occurs %d times (tree was edited): skipped", strings.Count(string(src), m.Old))
		return emit()
	}
	mutated := strings.Replace(string(src), m.Old, m.New, 1)
	if m.Old2 != "" {
		if strings.Count(mutated, m.Old2) != 1 {
			res.Error = "second hunk context not found exactly once: skipped"
			return emit()
		}
		mutated = strings.Replace(mutated, m.Old2, m.New2, 1)
	}
	if m.Old3 != "" {
		if strings.Count(mutated, m.Old3) != 1 {
			res.Error = "third hunk context not found exactly once: skipped"
			return emit()
		}
		mutated = strings.Replace(mutated, m.Old3, m.New3, 1)
	}
	prop := o.Property
	if prop == "" {
		prop = m.Property
	}
	fn := properties[prop]
	if fn == nil {
		res.Error = "property not claimed: " + prop
		return emit()
	}
	p, err := Load(LoadOpts{Dir: o.Repo, Overlay: map[string][]byte{path: []byte(mutated)}})
	if err != nil {
		res.Error = "mutant does not load: " + err.Error()
		return emit()
	}
	res.Applied = true
	r := NewReport(prop)
	func() {
		defer func() {
			if e := recover(); e != nil {
				r.Begin("R-INTERNAL", "checker integrity", 0)
				r.Unk("checker-panic", "-", "%v", e)
			}
		}()
		fn(p, r)
	}()
	// vacuity floors count as failing too
	for _, rs := range r.Rules {
		if rs.Instances < rs.Floor {
			res.Failing = append(res.Failing, rs.Rule+"|vacuity")
		}
	}
	res.Failing = append(res.Failing, failingKeys(r)...)
	if o.Verbose {
		for _, ob := range r.Obligs {
			if ob.Verdict == Violated || ob.Verdict == Undecided {
				fmt.Printf("  [%s] %s %s @%s: %s\n", ob.Verdict, ob.Rule, ob.Key, ob.Pos, ob.Reason)
			}
		}
	}
	return emit()
}

type mutantOutcome struct {
	ID      string   `json:"id"`
	Expect  string   `json:"expect_rule"`
	Status  string   `json:"status"` // killed | survived | skipped
	NewFail []string `json:"new_failing,omitempty"`
	Note    string   `json:"note,omitempty"`
}

// runMutants runs the mutants of one property in subprocesses and summarises.
func runMutants(o *RunOpts, base *Report) (outcomes []mutantOutcome) {
	return runMutantsLimit(o, base, 0)
}

func runMutantsLimit(o *RunOpts, base *Report, limit int) (outcomes []mutantOutcome) {
	ms, err := loadMutants(o.VerifDir)
	if err != nil {
		base.Note("mutants.json unreadable: %v", err)
		return nil
	}
	baseFail := map[string]bool{}
	for _, k := range failingKeys(base) {
		baseFail[k] = true
	}
	exe, err := os.Executable()
	if err != nil {
		base.Note("cannot locate own executable: %v", err)
		return nil
	}
	var mine []Mutant
	for _, m := range ms {
		if m.Property == o.Property {
			mine = append(mine, m)
		}
	}
	if limit > 0 && len(mine) > limit {
		mine = mine[:limit]
	}
	outcomes = make([]mutantOutcome, len(mine))
	sem := make(chan struct{}, 6)
	var wg sync.WaitGroup
	for i, m := range mine {
		wg.Add(1)
		go func(i int, m Mutant) {
			defer wg.Done()
			sem <- struct{}{}
			defer func() { <-sem }()
			oc := mutantOutcome{ID: m.ID, Expect: m.ExpectRule, Note: m.Note}
			cmd := exec.Command(exe, "-repo", o.Repo, "-verif", o.VerifDir, "-property", o.Property, "-mutant", m.ID)
			out, _ := cmd.CombinedOutput()
			var res mutantResult
			found := false
			for _, line := range strings.Split(string(out), "\n") {
				if strings.HasPrefix(line, "MUTANT-RESULT ") {
					if json.Unmarshal([]byte(strings.TrimPrefix(line, "MUTANT-RESULT ")), &res) == nil {
						found = true
					}
				}
			}
			switch {
			case !found:
				oc.Status = "skipped"
				oc.Note = "no result from subprocess"
			case !res.Applied:
				oc.Status = "skipped"
				oc.Note = res.Error
			default:
				for _, k := range res.Failing {
					if !baseFail[k] {
						oc.NewFail = append(oc.NewFail, k)
					}
				}
				oc.Status = "survived"
				for _, k := range oc.NewFail {
					if strings.HasPrefix(k, m.ExpectRule) {
						oc.Status = "killed"
					}
				}
				if oc.Status == "survived" && len(oc.NewFail) > 0 {
					oc.Status = "killed-by-other-rule"
				}
			}
			outcomes[i] = oc
		}(i, m)
	}
	wg.Wait()
	return outcomes
}
