package main

// tol_U4.go: shapes R-C09-SORT and R-C09-SHARED recognise besides the inline ones.
//
// R-C09-SORT: the class tests of the ordering may be wrapped in a small predicate of the package
// (`isIntegerPair(a, b)` for `a.IsInteger() && b.IsInteger()`):
//   - the guard of the integer comparison looks through such a predicate: every way on which the predicate answers
//     true must establish IsInteger() of the parameter the compared value is passed for (u4PredicateShowsInteger);
//   - the class walker evaluates a call of such a predicate by walking the predicate with the classes of the arguments
//     bound to its parameters (evalPredicateCall).
//
// R-C09-SHARED: the part of the executor that takes over the state map of the executing context may be a helper that
// is called with `from` (`ctx.continueRendering(from)`), the nil test standing inside it as an early return
// (u4StateTakenOverInHelper).

import (
	"go/types"

	"golang.org/x/tools/go/ssa"
)

// u4BoolPredicate: g is a small function of the package with a single boolean result whose body we can read.
func u4BoolPredicate(p *Prog, g *ssa.Function) bool {
	if g == nil || !p.InPkg(g) || g.Blocks == nil || len(g.Blocks) > 16 || g.Signature.Results().Len() != 1 {
		return false
	}
	bt, ok := g.Signature.Results().At(0).Type().Underlying().(*types.Basic)
	return ok && bt.Info()&types.IsBoolean != 0
}

// u4IsParam: v is the parameter q (read directly, or back from the cell it was spilled to).
func u4IsParam(v ssa.Value, q *ssa.Parameter) bool {
	if v == nil || q == nil {
		return false
	}
	return v == ssa.Value(q) || stripLoad(v) == ssa.Value(q) || unspillParam(v) == ssa.Value(q)
}

// u4PredicateShowsInteger: cc calls a predicate of the package with v as one of its arguments, and whenever the
// predicate answers true, IsInteger() of the parameter v is passed for was asked and answered true — directly or by a
// predicate it calls in turn. (`a.IsInteger() || b.IsInteger()`, a constant true, a test of another value: no.)
func u4PredicateShowsInteger(p *Prog, cc *ssa.Call, v ssa.Value, depth int) bool {
	g := cc.Common().StaticCallee()
	if depth > 2 || !u4BoolPredicate(p, g) {
		return false
	}
	rets := returnsOf(g)
	if len(rets) == 0 {
		return false
	}
	for i, a := range cc.Common().Args {
		if i >= len(g.Params) || p.VN(a) != p.VN(v) {
			continue
		}
		q := g.Params[i]
		want := func(c ssa.Value, pol bool) bool {
			call, ok := c.(*ssa.Call)
			if !ok || !pol || call.Common().StaticCallee() == nil || len(call.Common().Args) == 0 {
				return false
			}
			if call.Common().StaticCallee().Name() == "IsInteger" {
				return u4IsParam(call.Common().Args[0], q) || p.VN(call.Common().Args[0]) == p.VN(q)
			}
			return u4PredicateShowsInteger(p, call, q, depth+1)
		}
		all := true
		for _, ret := range rets {
			if len(ret.Results) != 1 || !u4TrueImplies(res(ret, 0), ret.Block(), want, 0) {
				all = false
			}
		}
		if all {
			return true
		}
	}
	return false
}

// u4TrueImplies: whenever control is in block `at` and val is true there, an edge establishing want was taken, or val's
// own truth establishes it (val is the wanted test, or a short-circuit conjunction containing it).
func u4TrueImplies(val ssa.Value, at *ssa.BasicBlock, want EdgePred, depth int) bool {
	if depth > 4 || at == nil {
		return false
	}
	c, pol := normCond(val, true)
	if _, direct := c.(*ssa.Const); direct {
		if k, isBool := constBool(c); isBool && k != pol {
			return true // never true on this way
		}
		return GuardedFrom(at.Parent().Blocks[0], at, want)
	}
	if want(c, pol) {
		return true
	}
	for _, cj := range expandShortCircuit(c, pol, 0) {
		if want(cj.c, cj.pol) {
			return true
		}
	}
	if GuardedFrom(at.Parent().Blocks[0], at, want) {
		return true
	}
	// a merge of several ways (not a plain short-circuit): each way by itself
	phi, ok := c.(*ssa.Phi)
	if !ok || !pol {
		return false
	}
	for i, e := range phi.Edges {
		pb := phi.Block().Preds[i]
		if u4TrueImplies(e, pb, want, depth+1) {
			continue
		}
		onEdge := false
		for si, s := range pb.Succs {
			if s == phi.Block() && edgeEstablishes(pb, si, want) {
				onEdge = true
			}
		}
		if !onEdge {
			return false
		}
	}
	return len(phi.Edges) > 0
}

// evalPredicateCall: the value of a call of a package predicate under the walker's classes: the predicate is walked with
// the classes of the arguments bound to its parameters; true/false if every way through it returns that value.
func (w *lessWalker) evalPredicateCall(c *ssa.Call) int {
	g := c.Common().StaticCallee()
	if w.depth >= 3 || !u4BoolPredicate(w.p, g) || g == w.f {
		return triU
	}
	cls := map[string]valClass{}
	for i, a := range c.Common().Args {
		if i >= len(g.Params) {
			break
		}
		if cl, ok := w.cls[w.p.VN(a)]; ok {
			cls[w.p.VN(g.Params[i])] = cl
		}
	}
	if len(cls) == 0 {
		return triU
	}
	sub := &lessWalker{p: w.p, f: g, cls: cls, modes: map[string]bool{}, depth: w.depth + 1}
	seenT, seenF, seenU := false, false, false
	sub.onReturn = func(ret *ssa.Return, from *ssa.BasicBlock) {
		if len(ret.Results) != 1 {
			seenU = true
			return
		}
		switch sub.eval(ret.Results[0], from) {
		case triT:
			seenT = true
		case triF:
			seenF = true
		default:
			seenU = true
		}
	}
	sub.walk(g.Blocks[0], nil, map[*ssa.BasicBlock]int{})
	w.steps += sub.steps
	switch {
	case sub.cut || seenU || seenT == seenF:
		return triU
	case seenT:
		return triT
	default:
		return triF
	}
}

// u4StateTakenOverInHelper: fn (the executor, or a helper of it) hands its parameter src to a function of the package
// that stores <that parameter>.field into ExecutionContext.field of ANOTHER context (its receiver / another parameter,
// not src itself) — on the way on which src is not nil: tested at the call, or inside the helper (`if from == nil {
// return }` before the store). guarded: the nil test was already passed further out.
func u4StateTakenOverInHelper(p *Prog, fn *ssa.Function, src *ssa.Parameter, field string, guarded bool, depth int) bool {
	if fn == nil || src == nil || depth > 2 {
		return false
	}
	for _, b := range fn.Blocks {
		for _, in := range b.Instrs {
			c, ok := in.(*ssa.Call) // not deferred, not `go`: the state is taken over before the document runs
			if !ok {
				continue
			}
			g := c.Common().StaticCallee()
			if g == nil || g == fn || !p.InPkg(g) || g.Blocks == nil {
				continue
			}
			args := c.Common().Args
			for i, a := range args {
				if i >= len(g.Params) || !u4IsParam(a, src) {
					continue
				}
				here := guarded || u4NonNilAt(in, src)
				if u4StoresFieldFrom(g, g.Params[i], args, src, field, here) || u4StateTakenOverInHelper(p, g, g.Params[i], field, here, depth+1) {
					return true
				}
			}
		}
	}
	return false
}

// u4NonNilAt: every way to `at` passed the not-nil edge of a nil test of parameter q.
func u4NonNilAt(at ssa.Instruction, q *ssa.Parameter) bool {
	return Guarded(at, func(c ssa.Value, pol bool) bool {
		x, eq, isNil := condIsNilTest(c)
		return isNil && u4IsParam(x, q) && eq != pol
	})
}

// u4StoresFieldFrom: g stores q.field into the field of the same name of the context it got as another parameter
// (actual: not src), where q is not nil.
func u4StoresFieldFrom(g *ssa.Function, q *ssa.Parameter, args []ssa.Value, src *ssa.Parameter, field string, guarded bool) bool {
	for _, b := range g.Blocks {
		for _, in := range b.Instrs {
			s, ok := in.(*ssa.Store)
			if !ok || !isFieldAddrOf(s.Addr, "ExecutionContext", field) {
				continue
			}
			base, n, fld := fieldLoadBase(s.Val)
			if n == nil || n.Obj().Name() != "ExecutionContext" || fld != field || !u4IsParam(base, q) {
				continue
			}
			// the target: another parameter of g, for which the caller passes another context than src
			target := s.Addr.(*ssa.FieldAddr).X
			other := false
			for j, tp := range g.Params {
				if tp != q && u4IsParam(target, tp) && j < len(args) && !u4IsParam(args[j], src) {
					other = true
				}
			}
			if !other {
				continue
			}
			if guarded || u4NonNilAt(in, q) {
				return true
			}
		}
	}
	return false
}
