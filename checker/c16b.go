package main

// C16, second part: R-C16-ARGPOS (every argument parser can name a position) and R-C16-FOREIGN (an error that comes
// out of registered code is completed where the engine still knows the template and the tag).

import (
	"go/token"
	"go/types"
	"strings"

	"golang.org/x/tools/go/ssa"
)

// parserConstructors: package functions that return a Parser they allocate.
func parserConstructors(p *Prog) []*ssa.Function {
	var out []*ssa.Function
	for _, f := range p.inPkgFuncsSorted(p.allFuncSet()) {
		if f.Signature.Recv() != nil || f.Parent() != nil || f.Signature.Results().Len() != 1 {
			continue
		}
		n := structOf(f.Signature.Results().At(0).Type())
		if n == nil || n.Obj().Name() != "Parser" {
			continue
		}
		fresh := false
		for _, ret := range returnsOf(f) {
			if _, ok := stripLoad(ret.Results[0]).(*ssa.Alloc); ok {
				fresh = true
			}
		}
		if fresh {
			out = append(out, f)
		}
	}
	return out
}

// R-C16-ARGPOS. Parser.Error(msg, nil) falls back to the token the parser remembers. The constructor remembers the last
// token of the list it is given — nothing for an empty list. A parser built for the arguments of a tag (which may have
// none: {% else %}, {% endif %}, {% now %}) must therefore be given the tag's own token to remember, or "expected X"
// for a tag without arguments is an error without position — which an including template then completes with ITS
// line and column.
func ruleC16ArgPos(p *Prog, a *Anchors, r *Report) {
	r.Begin("R-C16-ARGPOS", "every parser constructed for a part of a template (the arguments of a tag) is given a token to remember when its token list can be empty, so that its errors always carry a position of their own template", 2)
	ctors := parserConstructors(p)
	if len(ctors) == 0 {
		r.Unk("constructor", "-", "no function constructs a Parser (anchor unresolved)")
		return
	}
	isCtor := map[*ssa.Function]bool{}
	for _, c := range ctors {
		isCtor[c] = true
	}
	for _, f := range p.inPkgFuncsSorted(p.allFuncSet()) {
		if isCtor[f] {
			continue
		}
		n := 0
		for _, b := range f.Blocks {
			for _, in := range b.Instrs {
				c, ok := in.(*ssa.Call)
				if !ok || c.Common().StaticCallee() == nil || !isCtor[c.Common().StaticCallee()] {
					continue
				}
				n++
				key := p.FuncName(f) + ":parser"
				if n > 1 {
					key += "#" + itoa(int64(n))
				}
				// the whole document's tokens: errors of the document parser are reported at tokens of the list; an
				// empty document has nothing to report
				whole := false
				for _, arg := range c.Common().Args {
					if u, ok := arg.(*ssa.UnOp); ok {
						if fa, ok := u.X.(*ssa.FieldAddr); ok {
							if sn := structOf(fa.X.Type()); sn != nil && sn.Obj().Name() == "Template" {
								if _, isSlice := u.Type().Underlying().(*types.Slice); isSlice {
									whole = true
								}
							}
						}
					}
				}
				if whole {
					r.OK(key, p.InstrPos(in), "the parser of the whole document (the template's own token list)")
					continue
				}
				// a store into a *Token field of the constructed parser, in the same function
				stored := false
				for _, ref := range *c.Referrers() {
					fa, ok := ref.(*ssa.FieldAddr)
					if !ok {
						continue
					}
					pt, ok := fa.Type().(*types.Pointer)
					if !ok {
						continue
					}
					if ppt, ok := pt.Elem().(*types.Pointer); !ok || !types.Identical(ppt.Elem(), a.Token) {
						continue
					}
					for _, r2 := range *fa.Referrers() {
						if st, ok := r2.(*ssa.Store); ok && st.Addr == ssa.Value(fa) && !isNilConst(st.Val) {
							stored = true
						}
					}
				}
				if stored {
					r.OK(key, p.InstrPos(in), "the argument parser is given a token to remember (the tag's name) for the case that it has no tokens")
				} else {
					r.Bad(key, p.InstrPos(in), "a parser is constructed for a part of the template and never given a token to remember: with an empty token list (a tag without arguments, {%% else %%}, {%% endif %%}) Parser.Error(msg, nil) yields an error without position, which an including template completes with a line/column of its own")
				}
			}
		}
	}
}

// errorCompleter: the method of *Error that fills in template and position from a token and hands the error back.
func errorCompleter(p *Prog, a *Anchors) *ssa.Function {
	for _, m := range p.Methods(a.Error) {
		if m.Signature.Results().Len() != 1 || errorResultIndex(m) != 0 {
			continue
		}
		if paramOfType(m, types.NewPointer(a.Token)) != nil {
			return m
		}
	}
	return nil
}

// R-C16-FOREIGN. The documentation of Error lets a tag parser or a filter return an Error that says little more than
// Sender and OrigError. Where the engine calls such registered code (a call through a function value whose last
// result is *Error) and hands the error on, it has to complete it — it knows the template and the token — or the error
// reaches the user without file name and position, or is completed further up by an INCLUDING template with its own.
// A function that has no template in reach (ApplyFilter(name, value, param); a filter calling another filter) cannot
// complete anything: its callers in the package are held to the rule instead.
func ruleC16Foreign(p *Prog, a *Anchors, r *Report) {
	r.Begin("R-C16-FOREIGN", "an *Error returned by registered code (tag parser, filter function: a call through a function value) is completed with template and token before the engine hands it on, wherever the calling function has a template in reach", 2)
	upd := errorCompleter(p, a)
	if upd == nil {
		r.Unk("completer", "-", "no method of Error completes an error from a token (anchor unresolved)")
		return
	}
	hasTemplate := func(f *ssa.Function) bool {
		top := topLevel(f)
		for _, pa := range top.Params {
			if n := structOf(pa.Type()); n != nil {
				switch n.Obj().Name() {
				case "Parser", "ExecutionContext", "Template":
					return true
				}
			}
		}
		return false
	}
	// does the error value v reach a return of f at the error index without passing the completer?
	reachesReturn := func(f *ssa.Function, v ssa.Value) ssa.Instruction {
		ei := errorResultIndex(f)
		if ei < 0 {
			return nil
		}
		seen := map[ssa.Value]bool{}
		var flows func(x ssa.Value) bool
		flows = func(x ssa.Value) bool {
			if x == v {
				return true
			}
			if seen[x] {
				return false
			}
			seen[x] = true
			switch t := x.(type) {
			case *ssa.Phi:
				for _, e := range t.Edges {
					if flows(e) {
						return true
					}
				}
			case *ssa.UnOp:
				// a result read back from its cell (functions with defers spill their results): the last store in
				// the block of the load, else any store
				al, ok := t.X.(*ssa.Alloc)
				if !ok || t.Op != token.MUL {
					return false
				}
				var last *ssa.Store
				for _, in := range t.Block().Instrs {
					if in == ssa.Instruction(t) {
						break
					}
					if st, ok := in.(*ssa.Store); ok && st.Addr == ssa.Value(al) {
						last = st
					}
				}
				if last != nil {
					return flows(last.Val)
				}
				for _, ref := range *al.Referrers() {
					if st, ok := ref.(*ssa.Store); ok && st.Addr == ssa.Value(al) && flows(st.Val) {
						return true
					}
				}
				return false
			case *ssa.MakeInterface:
				return flows(t.X)
			case *ssa.ChangeType:
				return flows(t.X)
			case *ssa.TypeAssert:
				return flows(t.X)
			case *ssa.Extract:
				if ta, ok := t.Tuple.(*ssa.TypeAssert); ok {
					return flows(ta.X)
				}
			}
			return false
		}
		for _, ret := range returnsOf(f) {
			if ei < len(ret.Results) && flows(ret.Results[ei]) {
				return ret
			}
		}
		return nil
	}
	// foreign sources: dynamic calls of function values whose last result is *Error; then, transitively, static calls
	// of package functions that hand such an error on uncompleted and have no template in reach
	relay := map[*ssa.Function]bool{}
	funcs := p.inPkgFuncsSorted(p.allFuncSet())
	type site struct {
		f   *ssa.Function
		c   *ssa.Call
		err ssa.Value
		dyn bool
	}
	errOf := func(c *ssa.Call) ssa.Value {
		res := c.Common().Signature().Results()
		if res.Len() == 0 {
			return nil
		}
		pt, ok := res.At(res.Len() - 1).Type().(*types.Pointer)
		if !ok || !types.Identical(pt.Elem(), a.Error) {
			return nil
		}
		if res.Len() == 1 {
			return c
		}
		for _, ref := range *c.Referrers() {
			if ex, ok := ref.(*ssa.Extract); ok && ex.Index == res.Len()-1 {
				return ex
			}
		}
		return nil
	}
	collect := func() []site {
		var out []site
		for _, f := range funcs {
			for _, b := range f.Blocks {
				for _, in := range b.Instrs {
					c, ok := in.(*ssa.Call)
					if !ok || c.Common().IsInvoke() {
						continue
					}
					callee := c.Common().StaticCallee()
					dyn := callee == nil
					if dyn {
						// registered code is a function value the engine keeps somewhere (a field of a registry entry or
						// of a compiled node, a map element): loaded from memory. A function handed in as a parameter
						// (parseLogicalChain(p.parseAndExpression, …)) or a closure built here is the engine's own code.
						switch v := c.Common().Value.(type) {
						case *ssa.UnOp:
							if v.Op != token.MUL {
								continue
							}
						case *ssa.Lookup, *ssa.Extract, *ssa.Field, *ssa.Index:
						default:
							continue
						}
					} else if !relay[callee] {
						continue
					}
					if ev := errOf(c); ev != nil {
						out = append(out, site{f, c, ev, dyn})
					}
				}
			}
		}
		return out
	}
	for round := 0; round < 6; round++ {
		changed := false
		for _, s := range collect() {
			if hasTemplate(s.f) || relay[s.f] {
				continue
			}
			if reachesReturn(s.f, s.err) != nil {
				relay[s.f] = true
				changed = true
			}
		}
		if !changed {
			break
		}
	}
	count := map[string]int{}
	for _, s := range collect() {
		if !hasTemplate(s.f) {
			continue
		}
		what := "a function value"
		if !s.dyn {
			what = p.FuncName(s.c.Common().StaticCallee()) + " (which hands on the error of registered code as it is)"
		}
		key := p.FuncName(s.f) + ":registered-code"
		count[key]++
		if count[key] > 1 {
			key += "#" + itoa(int64(count[key]))
		}
		if ret := reachesReturn(s.f, s.err); ret != nil {
			r.Bad(key, p.InstrPos(s.c), "the *Error returned by %s is handed on as it is (return at %s): an error that names no template and no position — which the documentation of Error allows registered code to return — reaches the user that way, or is completed by an including template with a line/column of its own", what, p.InstrPos(ret))
			continue
		}
		// completed?
		completed := false
		for _, ref := range *s.err.Referrers() {
			if cc, ok := ref.(*ssa.Call); ok && cc.Common().StaticCallee() == upd && len(cc.Common().Args) > 0 && cc.Common().Args[0] == s.err {
				completed = true
			}
		}
		if completed {
			r.OK(key, p.InstrPos(s.c), "the *Error returned by %s is completed (%s) before it is handed on", what, p.FuncName(upd))
		} else {
			r.OK(key, p.InstrPos(s.c), "the *Error returned by %s is not handed on as it is", what)
		}
	}
}

// R-C16-CROSS. A position (Line, Column, Token) and a file name belong together. An error that comes out of loading,
// compiling or executing ANOTHER template names that other template; completing it with a token of the template that
// referred to it (the include tag's own token) yields "in other.tpl | Line 3 Col 14" for a position of the referring
// template — a line the named file may not even have. Such errors are handed on as they are (or wrapped), never given
// a token of this template.
func ruleC16Cross(p *Prog, a *Anchors, r *Report) {
	r.Begin("R-C16-CROSS", "an *Error that is the result of loading, compiling or executing another template is not completed with a token of the referring template: file name and position of a reported error stem from one source", 1)
	upd := errorCompleter(p, a)
	if upd == nil {
		r.Unk("completer", "-", "no method of Error completes an error from a token (anchor unresolved)")
		return
	}
	otherTemplate := func(c *ssa.Call) string {
		callee := c.Common().StaticCallee()
		if callee == nil || !p.InPkg(callee) {
			return ""
		}
		if a.FileLoaders[callee] {
			return p.FuncName(callee)
		}
		if recv := callee.Signature.Recv(); recv != nil && structOf(recv.Type()) == a.Template {
			ln := strings.ToLower(callee.Name())
			if strings.Contains(ln, "execute") {
				return p.FuncName(callee)
			}
		}
		return ""
	}
	var origin func(v ssa.Value, depth int) string
	origin = func(v ssa.Value, depth int) string {
		if depth > 6 {
			return ""
		}
		switch x := v.(type) {
		case *ssa.Call:
			if o := otherTemplate(x); o != "" {
				return o
			}
			if x.Common().StaticCallee() == upd && len(x.Common().Args) > 0 {
				// the completed copy of an error is still that error
				return origin(x.Common().Args[0], depth+1)
			}
			// a call through a function value (the tag dispatcher calling a tag's parser): what the possible callees of
			// the package hand back as their error
			if x.Common().StaticCallee() == nil && !x.Common().IsInvoke() && depth < 3 {
				for _, g := range p.Callees(p.CG, x) {
					if !p.InPkg(g) || g.Blocks == nil {
						continue
					}
					ei := errorResultIndex(g)
					if ei < 0 {
						continue
					}
					for _, ret := range returnsOf(g) {
						if ei < len(ret.Results) {
							if o := origin(ret.Results[ei], depth+2); o != "" {
								return o + " (handed on by " + p.FuncName(g) + ")"
							}
						}
					}
				}
			}
			return ""
		case *ssa.Parameter:
			// a helper that is handed the error (executionError(ctx, err)): where it comes from at the call sites
			for _, s := range paramActualSites(p, x) {
				if o := origin(s.val, depth+1); o != "" {
					return o
				}
			}
		case *ssa.Extract:
			return origin(x.Tuple, depth+1)
		case *ssa.TypeAssert:
			return origin(x.X, depth+1)
		case *ssa.ChangeInterface:
			return origin(x.X, depth+1)
		case *ssa.MakeInterface:
			return origin(x.X, depth+1)
		case *ssa.Phi:
			for _, e := range x.Edges {
				if o := origin(e, depth+1); o != "" {
					return o
				}
			}
		case *ssa.UnOp:
			if al, ok := x.X.(*ssa.Alloc); ok {
				for _, ref := range *al.Referrers() {
					if st, ok := ref.(*ssa.Store); ok && st.Addr == ssa.Value(al) {
						if o := origin(st.Val, depth+1); o != "" {
							return o
						}
					}
				}
			}
		}
		return ""
	}
	// the completer itself may refuse: it gives its token's position only to an error that names the token's source or
	// none (every store of Line in it stands behind such a test)
	refuses, nLine := true, 0
	same := func(c ssa.Value, pol bool) bool { return sameSourceAtom(p, c, pol) }
	for _, fn := range clusterOf(p, upd, 1) {
		if fn != upd && (fn.Signature.Recv() == nil || structOf(fn.Signature.Recv().Type()) != a.Error) {
			continue
		}
		for _, b := range fn.Blocks {
			for _, in := range b.Instrs {
				st, ok := in.(*ssa.Store)
				if !ok || !isFieldAddrOf(st.Addr, "Error", "Line") {
					continue
				}
				nLine++
				if fn == upd {
					if !Guarded(in, same) {
						refuses = false
					}
					continue
				}
				// a setter the completer calls (c.setPositionFrom(t)): the test stands at the call
				for _, ci := range callsTo(upd, fn) {
					if !Guarded(ci.(ssa.Instruction), same) {
						refuses = false
					}
				}
			}
		}
	}
	refuses = refuses && nLine > 0
	n := 0
	count := map[string]int{}
	for _, f := range p.inPkgFuncsSorted(p.allFuncSet()) {
		for _, b := range f.Blocks {
			for _, in := range b.Instrs {
				// explicit stores of a position into such an error count like a completion
				if st, ok := in.(*ssa.Store); ok && isFieldAddrOf(st.Addr, "Error", "Line") && f != upd {
					base := st.Addr.(*ssa.FieldAddr).X
					if from := origin(base, 0); from != "" {
						n++
						key := p.FuncName(f) + ":positions-error-of-other-template"
						count[key]++
						if count[key] > 1 {
							key += "#" + itoa(int64(count[key]))
						}
						r.Bad(key, p.InstrPos(in), "the error returned by %s — which names the template that was loaded or executed there — is given a Line/Column of the referring template: the report reads `in <other file> | Line/Col of this file`", from)
						// … and where that is done at all (the fixture-pinned message of a failed static include), it is done
						// only for the failure to load the very file the tag names: Sender == "fromfile" and Filename == the
						// requested name on every path to the store. Any other position-less compile error of the included
						// template (a nesting-depth error, its own missing parent) names another source still.
						lkey := p.FuncName(f) + ":legacy-position:load-failure-only"
						sender := Guarded(in, func(cnd ssa.Value, pol bool) bool {
							bo, ok := cnd.(*ssa.BinOp)
							if !ok || bo.Op != token.EQL || !pol {
								return false
							}
							sv, isC := constString(bo.Y)
							return isC && sv == "fromfile" && loadsField(bo.X, "Error", "Sender")
						})
						thisFile := Guarded(in, func(cnd ssa.Value, pol bool) bool {
							bo, ok := cnd.(*ssa.BinOp)
							if !ok || bo.Op != token.EQL || !pol {
								return false
							}
							return loadsField(bo.X, "Error", "Filename") || loadsField(bo.Y, "Error", "Filename")
						})
						cause := Guarded(in, func(cnd ssa.Value, pol bool) bool {
							bo, ok := cnd.(*ssa.BinOp)
							if ok && bo.Op == token.EQL && pol {
								return loadsField(stripConv(bo.X), "Error", "OrigError") || loadsField(stripConv(bo.Y), "Error", "OrigError")
							}
							if c, isC := cnd.(*ssa.Call); isC && pol && c.Common().StaticCallee() != nil && p.extName(c.Common().StaticCallee()) == "errors.Is" {
								return true
							}
							return false
						})
						thisFile = thisFile && cause // (the depth error of an include cycle has the same Sender and Filename)
						if sender && thisFile {
							r.OK(lkey, p.InstrPos(in), "only the failure to load the named file itself is given the tag's position")
						} else {
							r.Bad(lkey, p.InstrPos(in), "the tag's position is put on EVERY position-less error that comes back from loading the included template (Sender==\"fromfile\" on the path: %v, Filename==<requested> and the not-found cause on the path: %v): a nesting-depth error of an include cycle, or the missing parent of an existing included template, is reported with this tag's line and column under the name of a file in which that position means nothing", sender, thisFile)
						}
					}
					continue
				}
				c, ok := in.(*ssa.Call)
				if !ok || c.Common().StaticCallee() != upd || len(c.Common().Args) == 0 {
					continue
				}
				from := origin(c.Common().Args[0], 0)
				if from == "" {
					continue
				}
				n++
				key := p.FuncName(f) + ":completes-error-of-other-template"
				count[key]++
				if count[key] > 1 {
					key += "#" + itoa(int64(count[key]))
				}
				if refuses {
					r.OK(key, p.InstrPos(in), "the error returned by %s is handed to %s, which gives a position only to an error that names the token's source or none", from, p.FuncName(upd))
					continue
				}
				r.Bad(key, p.InstrPos(in), "the error returned by %s — which names the template that was loaded or executed there — is given the position of a token of the referring template: the report reads `in <other file> | Line/Col of this file`", from)
			}
		}
	}
	if n == 0 {
		r.Trivial("none", "-", "no error of another template's loading or execution is completed with a token")
	}
}
