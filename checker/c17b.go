package main

// R-C17-ONCE: "HTML-unescaping it gives back the input" holds for what a template prints only if the escape filter is
// applied once. The engine applies it implicitly wherever a value is printed under autoescape ({{ }}, cycle, firstof);
// a value that is already marked safe — the result of `escape`, of a macro, of an HTML-aware filter — must not be
// escaped again there (`{% firstof x|escape %}` printed &amp;lt; for <).

import (
	"go/token"
	"go/types"

	"golang.org/x/tools/go/ssa"
)

func ruleC17Once(p *Prog, a *Anchors, r *Report) {
	r.Begin("R-C17-ONCE", "every implicit application of the escape filter by a printing node (a call of the registered \"escape\" filter in a function that executes with an ExecutionContext) is reached only when the value is not already marked safe: nothing is escaped twice", 2)
	safeField := func(v ssa.Value) (ssa.Value, bool) {
		u, ok := v.(*ssa.UnOp)
		if !ok || u.Op != token.MUL {
			return nil, false
		}
		fa, ok := u.X.(*ssa.FieldAddr)
		if !ok {
			return nil, false
		}
		n := structOf(fa.X.Type())
		if n == nil || !types.Identical(n, a.Value) || fieldName(fa.X.Type(), fa.Field) != "safe" {
			return nil, false
		}
		return fa.X, true
	}
	count := map[string]int{}
	for _, f := range p.inPkgFuncsSorted(p.allFuncSet()) {
		hasCtx := false
		for _, pa := range topLevel(f).Params {
			if n := structOf(pa.Type()); n != nil && n.Obj().Name() == "ExecutionContext" {
				hasCtx = true
			}
		}
		if !hasCtx {
			continue
		}
		for _, b := range f.Blocks {
			for _, in := range b.Instrs {
				c, ok := in.(*ssa.Call)
				if !ok || c.Common().IsInvoke() {
					continue
				}
				var val ssa.Value
				cc := c.Common()
				if callee := cc.StaticCallee(); callee != nil {
					if callee.Name() != "ApplyFilter" || !p.InPkg(callee) || len(cc.Args) < 2 {
						continue
					}
					if s, isC := constString(cc.Args[0]); !isC || s != "escape" {
						continue
					}
					val = cc.Args[1]
				} else {
					lk, ok := cc.Value.(*ssa.Lookup)
					if !ok || len(cc.Args) < 1 {
						continue
					}
					if s, isC := constString(lk.Index); !isC || s != "escape" {
						continue
					}
					val = cc.Args[0]
				}
				key := p.FuncName(f) + ":implicit-escape"
				count[key]++
				if count[key] > 1 {
					key += "#" + itoa(int64(count[key]))
				}
				guarded := Guarded(c, func(cond ssa.Value, pol bool) bool {
					base, ok := safeField(cond)
					return ok && !pol && p.VN(base) == p.VN(val)
				})
				if pa, isParam := val.(*ssa.Parameter); !guarded && isParam {
					// the test may stand where the helper that escapes is called
					sites := paramActualSites(p, pa)
					guarded = len(sites) > 0
					for _, s := range sites {
						act := s.val
						if !Guarded(s.site, func(cond ssa.Value, pol bool) bool {
							base, ok := safeField(cond)
							return ok && !pol && p.VN(base) == p.VN(act)
						}) {
							guarded = false
						}
					}
				}
				if guarded {
					r.OK(key, p.InstrPos(in), "the escape filter is applied only to a value whose safe mark is not set")
				} else {
					r.Bad(key, p.InstrPos(in), "the escape filter is applied without asking whether the value (%s) is already marked safe: what `escape`, a macro or an HTML-aware filter produced is escaped a second time (&amp;lt; for <), and unescaping the output no longer gives back the input", p.VN(val))
				}
			}
		}
	}
}
