package main

// Shapes R-C03-TAG reads through (tolerance of behaviour-preserving refactorings):
//
//   - the call of the tag's parser lives in a helper that is handed the parser as a parameter
//     (`p.parseTagNested(tag.parser, tokenName, argParser)`): the obligation moves to the helper's call sites. A
//     helper that is unexported and only called statically runs only when one of these call sites is executed, so
//     what dominates the call site dominates the invocation inside the helper: at EACH call site the argument must be
//     the parser field of an entry looked up in the tag registry, the site must lie on the not-banned edge of the
//     lookup of the same name in the compiling template's set, and the banned edge must return an error — exactly
//     what is demanded of a direct call. A helper whose callers cannot all be seen (exported, used as a value,
//     started with go, no caller) is not read through: the invocation stays undecided as before.

import (
	"golang.org/x/tools/go/ssa"
)

// judgeTagParserUse: the TagParser value `val` is invoked (or handed to the helper that invokes it) by instruction
// `at` of function fn. Reports the verdict under key.
func judgeTagParserUse(p *Prog, a *Anchors, ba *banAnchors, r *Report, key string, fn *ssa.Function, at ssa.Instruction, val ssa.Value, depth int) {
	pos := p.InstrPos(at)
	// where does the parser value come from? load of field `parser` of an entry obtained by registry lookup
	base, bn, _ := fieldLoadBase(val)
	var regKey ssa.Value
	if base != nil && bn != nil {
		regKey = registryLookupKey(base, a.TagRegistry)
	}
	if regKey == nil {
		// a parameter of a helper: judged by what every call site of the helper passes, at that call site
		if pa, isParam := stripLoad(val).(*ssa.Parameter); isParam && pa.Parent() == fn && depth < 3 {
			if sites := paramActualSites(p, pa); len(sites) > 0 {
				for _, s := range sites {
					caller := s.site.Parent()
					judgeTagParserUse(p, a, ba, r, key+"←"+p.FuncName(caller), caller, s.site, s.val, depth+1)
				}
				return
			}
		}
		r.Unk(key, pos, "a TagParser is invoked that was not obtained from the tag registry by a lookup in this function (%s); cannot relate it to a ban check", p.VN(val))
		return
	}
	var guardLk *ssa.Lookup
	g := Guarded(at, func(c ssa.Value, pol bool) bool {
		ok := banEdge(ba.tagBan, func(k ssa.Value) bool { return p.VN(k) == p.VN(regKey) })(c, pol)
		if ok {
			guardLk = lookupCommaOk(c)
		}
		return ok
	})
	if !g {
		r.Bad(key, pos, "the tag parser for name %s runs on a path that has not passed the not-banned edge of set.%s[%s]: a banned tag's code executes", p.VN(regKey), ba.tagBan, p.VN(regKey))
		return
	}
	// receiver set must be the compiling template's set
	setOK := guardLk == nil || isParserTemplateSet(guardLk.X)
	// banned edge returns an error
	errOK := true
	if guardLk != nil {
		for _, u := range refs(guardLk) {
			if ex, ok := u.(*ssa.Extract); ok && ex.Index == 1 {
				for _, uu := range refs(ex) {
					if iff, ok := uu.(*ssa.If); ok && !errorReturnsOnly(fn, iff.Block().Succs[0]) {
						errOK = false
					}
				}
			}
		}
	}
	switch {
	case !setOK:
		r.Bad(key, pos, "the ban map consulted is not the compiling template's set (%s)", p.VN(guardLk.X))
	case !errOK:
		r.Bad(key, pos, "the banned edge does not end in an error return: compilation of a banned tag must fail")
	default:
		r.OK(key, pos, "guarded by !banned(%s) in <Parser>.template.set.%s; banned edge returns an error", p.VN(regKey), ba.tagBan)
	}
}
