package main

// guard.go: engine G — path questions over the SSA control-flow graph of one function.
// All questions are of the form "does every path from A to B pass X", decided by graph
// reachability after removing X (exact for the CFG; infeasible paths are treated as feasible,
// i.e. conservatively).

import (
	"go/constant"
	"go/token"
	"go/types"

	"golang.org/x/tools/go/ssa"
)

// EdgePred tells whether taking the branch of `cond` with truth value `pol` establishes the wanted fact.
type EdgePred func(cond ssa.Value, pol bool) bool

// normCond strips negations: returns the underlying condition and the polarity under which the original is true.
func normCond(c ssa.Value, pol bool) (ssa.Value, bool) {
	for {
		u, ok := c.(*ssa.UnOp)
		if !ok || u.Op != token.NOT {
			return c, pol
		}
		c = u.X
		pol = !pol
	}
}

// edgeEstablishes applies pred to the edge from block b to its i-th successor.
func edgeEstablishes(b *ssa.BasicBlock, i int, pred EdgePred) bool {
	if len(b.Instrs) == 0 {
		return false
	}
	iff, ok := b.Instrs[len(b.Instrs)-1].(*ssa.If)
	if !ok {
		return false
	}
	// if both successors are the same block the branch establishes nothing
	if len(b.Succs) == 2 && b.Succs[0] == b.Succs[1] {
		return false
	}
	c, pol := normCond(iff.Cond, i == 0)
	if pred(c, pol) {
		return true
	}
	// a short-circuit expression used as a value (`case a && b:` of a tagless switch, `x := a || b; if x`) arrives as
	// a phi of constants and the last operand: its truth decomposes into the operands'
	for _, cj := range expandShortCircuit(c, pol, 0) {
		if pred(cj.c, cj.pol) {
			return true
		}
	}
	return false
}

type condPol struct {
	c   ssa.Value
	pol bool
}

// expandShortCircuit: for a boolean phi that merges constants (the short-circuit exits) with a computed operand, the
// conditions that hold when the phi has the value pol: none of the constant exits with the other value was taken (so
// each exiting block's own condition went the other way) and the computed operand equals pol. Empty when a constant
// exit itself has the value pol (then nothing follows).
func expandShortCircuit(c ssa.Value, pol bool, depth int) []condPol {
	phi, ok := c.(*ssa.Phi)
	if !ok || depth > 4 {
		return nil
	}
	if bt, isB := phi.Type().Underlying().(*types.Basic); !isB || bt.Info()&types.IsBoolean == 0 {
		return nil
	}
	var out []condPol
	for i, e := range phi.Edges {
		pb := phi.Block().Preds[i]
		if k, isC := e.(*ssa.Const); isC && k.Value != nil && k.Value.Kind() == constant.Bool {
			if constant.BoolVal(k.Value) == pol {
				return nil // this exit yields pol by itself
			}
			// the exit was not taken: pb's branch went to its other successor
			if len(pb.Instrs) == 0 {
				return nil
			}
			iff, isIf := pb.Instrs[len(pb.Instrs)-1].(*ssa.If)
			if !isIf || len(pb.Succs) != 2 {
				return nil
			}
			taken := 0
			if pb.Succs[0] == phi.Block() {
				taken = 1
			}
			cc, pp := normCond(iff.Cond, taken == 0)
			out = append(out, condPol{cc, pp})
			out = append(out, expandShortCircuit(cc, pp, depth+1)...)
			continue
		}
		cc, pp := normCond(e, pol)
		out = append(out, condPol{cc, pp})
		out = append(out, expandShortCircuit(cc, pp, depth+1)...)
	}
	return out
}

func instrIndex(in ssa.Instruction) int {
	for i, x := range in.Block().Instrs {
		if x == in {
			return i
		}
	}
	return -1
}

// Guarded: on every path from the function entry to `target`, an edge satisfying pred is taken.
func Guarded(target ssa.Instruction, pred EdgePred) bool {
	return GuardedFrom(target.Parent().Blocks[0], target.Block(), pred)
}

func GuardedFrom(entry, target *ssa.BasicBlock, pred EdgePred) bool {
	seen := map[*ssa.BasicBlock]bool{entry: true}
	work := []*ssa.BasicBlock{entry}
	for len(work) > 0 {
		b := work[len(work)-1]
		work = work[:len(work)-1]
		if b == target {
			return false
		}
		for i, s := range b.Succs {
			if edgeEstablishes(b, i, pred) {
				continue
			}
			if !seen[s] {
				seen[s] = true
				work = append(work, s)
			}
		}
	}
	return true
}

// MustPass: every path from function entry to `target` executes an instruction for which barrier is true
// (before target). If target itself is a barrier it does not count.
func MustPass(target ssa.Instruction, barrier func(ssa.Instruction) bool) bool {
	return MustPassFrom(target.Parent().Blocks[0], 0, target, barrier)
}

// MustPassFrom starts at instruction index `from` of block `start`.
func MustPassFrom(start *ssa.BasicBlock, from int, target ssa.Instruction, barrier func(ssa.Instruction) bool) bool {
	tb := target.Block()
	ti := instrIndex(target)
	// scan returns true if control can leave/advance through block b from index i to the end without a barrier,
	// and reports reaching target.
	reached := false
	scan := func(b *ssa.BasicBlock, i int) bool {
		for ; i < len(b.Instrs); i++ {
			if b == tb && i == ti {
				reached = true
				return false
			}
			if barrier(b.Instrs[i]) {
				return false
			}
		}
		return true
	}
	seen := map[*ssa.BasicBlock]bool{}
	var work []*ssa.BasicBlock
	if scan(start, from) {
		for _, s := range start.Succs {
			if !seen[s] {
				seen[s] = true
				work = append(work, s)
			}
		}
	}
	for len(work) > 0 && !reached {
		b := work[len(work)-1]
		work = work[:len(work)-1]
		if scan(b, 0) {
			for _, s := range b.Succs {
				if !seen[s] {
					seen[s] = true
					work = append(work, s)
				}
			}
		}
	}
	return !reached
}

// ReachesInstr: can control flow from the start of block `from` reach instruction target?
func ReachesInstr(from *ssa.BasicBlock, target ssa.Instruction) bool {
	return !MustPassFrom(from, 0, target, func(ssa.Instruction) bool { return false })
}

// ReachableBlocks from b (inclusive).
func ReachableBlocks(b *ssa.BasicBlock) map[*ssa.BasicBlock]bool {
	seen := map[*ssa.BasicBlock]bool{b: true}
	work := []*ssa.BasicBlock{b}
	for len(work) > 0 {
		x := work[len(work)-1]
		work = work[:len(work)-1]
		for _, s := range x.Succs {
			if !seen[s] {
				seen[s] = true
				work = append(work, s)
			}
		}
	}
	return seen
}

// After: instruction a is executed before b on every path that reaches b (a dominates b).
func Dominates(a, b ssa.Instruction) bool {
	if a.Block() == b.Block() {
		return instrIndex(a) < instrIndex(b)
	}
	return a.Block().Dominates(b.Block())
}

// ExitsAfter: starting right after instruction `from`, every path to a function exit (Return) executes
// an instruction satisfying pred; paths ending in panic are ignored. Deferred calls are handled by the caller.
func AllExitsPass(from ssa.Instruction, pred func(ssa.Instruction) bool) (ok bool, offending ssa.Instruction) {
	start := from.Block()
	idx := instrIndex(from) + 1
	seen := map[*ssa.BasicBlock]bool{}
	type item struct {
		b *ssa.BasicBlock
		i int
	}
	work := []item{{start, idx}}
	for len(work) > 0 {
		it := work[len(work)-1]
		work = work[:len(work)-1]
		passed := false
		for i := it.i; i < len(it.b.Instrs); i++ {
			in := it.b.Instrs[i]
			if pred(in) {
				passed = true
				break
			}
			if _, isRet := in.(*ssa.Return); isRet {
				return false, in
			}
		}
		if passed {
			continue
		}
		for _, s := range it.b.Succs {
			if !seen[s] {
				seen[s] = true
				work = append(work, item{s, 0})
			}
		}
	}
	return true, nil
}

// ReturnsOnEdge describes what the function returns on all paths starting at block b:
// it calls visit for every Return reachable from b.
func ReturnsFrom(b *ssa.BasicBlock, visit func(*ssa.Return)) {
	for blk := range ReachableBlocks(b) {
		if len(blk.Instrs) == 0 {
			continue
		}
		if r, ok := blk.Instrs[len(blk.Instrs)-1].(*ssa.Return); ok {
			visit(r)
		}
	}
}

// valueMayBeNil: conservative check whether an SSA value of pointer/interface type can be nil, by shape:
// constants nil → true; Alloc, MakeInterface, Call to constructor-like → false (unknown → true).
func definitelyNonNil(v ssa.Value, depth int) bool {
	if depth > 6 {
		return false
	}
	switch v := v.(type) {
	case *ssa.Alloc, *ssa.MakeInterface, *ssa.MakeMap, *ssa.MakeSlice, *ssa.MakeClosure, *ssa.Function, *ssa.FieldAddr, *ssa.IndexAddr:
		return true
	case *ssa.Const:
		return v.Value != nil
	case *ssa.ChangeType:
		return definitelyNonNil(v.X, depth+1)
	case *ssa.ChangeInterface:
		return definitelyNonNil(v.X, depth+1)
	case *ssa.Phi:
		for _, e := range v.Edges {
			if e == v {
				continue
			}
			if !definitelyNonNil(e, depth+1) {
				return false
			}
		}
		return true
	case *ssa.UnOp:
		// load of a local cell (results are spilled to cells when the function has defers)
		if sv := localLoadValue(v); sv != nil {
			return definitelyNonNil(sv, depth+1)
		}
		// a package-level sentinel (var errNotFound = errors.New(…)): assigned exactly once, a non-nil value
		if g, ok := v.X.(*ssa.Global); ok && g.Pkg != nil {
			n, nonNil := 0, true
			for _, m := range g.Pkg.Members {
				fn, isFn := m.(*ssa.Function)
				if !isFn {
					continue
				}
				for _, f := range append([]*ssa.Function{fn}, fn.AnonFuncs...) {
					for _, b := range f.Blocks {
						for _, in := range b.Instrs {
							if st, isSt := in.(*ssa.Store); isSt && st.Addr == ssa.Value(g) {
								n++
								if !definitelyNonNil(st.Val, depth+1) {
									nonNil = false
								}
							}
						}
					}
				}
			}
			return n == 1 && nonNil && !g.Object().Exported()
		}
		return false
	case *ssa.Call:
		// errors.New / fmt.Errorf never return nil
		if f := v.Common().StaticCallee(); f != nil && f.Pkg != nil {
			if q := f.Pkg.Pkg.Path() + "." + f.Name(); q == "errors.New" || q == "fmt.Errorf" {
				return true
			}
		}
		if f := v.Common().StaticCallee(); f != nil && f.Blocks != nil && f.Signature.Results().Len() == 1 {
			ok := true
			args := callArgs(v.Common())
			for _, r := range returnsOf(f) {
				rv := res(r, 0)
				// a method that hands its receiver/argument back (e.updateFromTokenIfNeeded(…) returns e)
				if pa, isP := rv.(*ssa.Parameter); isP {
					idx := -1
					for i, q := range f.Params {
						if q == pa {
							idx = i
						}
					}
					if idx >= 0 && idx < len(args) && definitelyNonNil(args[idx], depth+1) {
						continue
					}
				}
				if !definitelyNonNil(rv, depth+1) {
					ok = false
				}
			}
			return ok
		}
	}
	return false
}

// condIsNilTest: cond is `x == nil` (eq=true) or `x != nil` (eq=false) for some x; returns x.
func condIsNilTest(c ssa.Value) (x ssa.Value, eq bool, ok bool) {
	b, isBin := c.(*ssa.BinOp)
	if !isBin || (b.Op != token.EQL && b.Op != token.NEQ) {
		return nil, false, false
	}
	if isNilConst(b.Y) {
		return b.X, b.Op == token.EQL, true
	}
	if isNilConst(b.X) {
		return b.Y, b.Op == token.EQL, true
	}
	return nil, false, false
}

// localLoadValue: v loads a local cell (Alloc); returns the value most recently stored to it in the same
// block before the load, or the only value ever stored to it in the function. nil if unknown.
func localLoadValue(v *ssa.UnOp) ssa.Value {
	if v.Op != token.MUL {
		return nil
	}
	cell, ok := v.X.(*ssa.Alloc)
	if !ok {
		return nil
	}
	b := v.Block()
	idx := instrIndex(v)
	for i := idx - 1; i >= 0; i-- {
		if st, ok := b.Instrs[i].(*ssa.Store); ok && st.Addr == ssa.Value(cell) {
			return st.Val
		}
		// a call between store and load could write the cell only if it escaped (closures); be conservative
		if _, isCall := b.Instrs[i].(ssa.CallInstruction); isCall {
			if _, isRD := b.Instrs[i].(*ssa.RunDefers); !isRD {
				// plain calls cannot write a non-escaping cell; captured cells are handled by the single-store rule
				continue
			}
		}
	}
	var only ssa.Value
	n := 0
	for _, u := range refs(cell) {
		switch u := u.(type) {
		case *ssa.Store:
			if u.Addr == ssa.Value(cell) {
				only = u.Val
				n++
			}
		case *ssa.MakeClosure:
			// captured: a closure may store to it
			fn := u.Fn.(*ssa.Function)
			for i, bnd := range u.Bindings {
				if bnd == ssa.Value(cell) && i < len(fn.FreeVars) {
					for _, r := range refs(fn.FreeVars[i]) {
						if st, ok := r.(*ssa.Store); ok && st.Addr == ssa.Value(fn.FreeVars[i]) {
							n += 2
						}
					}
				}
			}
		}
	}
	if n == 1 {
		return only
	}
	return nil
}
