package main

// tol_T3.go — shapes in which the C15 rules recognise their conditions when a maintainer has moved them:
//   * a guarding test that lives in a small predicate function called in the condition (condHolds),
//   * a construct that lives in a helper of the anchor function, with guards partly in the helper and partly at the
//     call site of the helper (inheritedGuards),
//   * a helper whose result is written by the anchor function (flowsFromCall).

import (
	"go/token"
	"go/types"

	"golang.org/x/tools/go/ssa"
)

// condWay: one way in which a boolean value has a wanted truth value, as a conjunction of conditions that hold then.
type condWay []condPol

const maxCondWays = 48

// pathCondsInto: conditions that hold whenever control goes from block pred to its successor succ: the branch
// conditions under which pred is reached at all, and the one of pred's own branch towards succ.
func pathCondsInto(pred, succ *ssa.BasicBlock) []condPol {
	var out []condPol
	if len(pred.Instrs) == 0 {
		return nil
	}
	last := pred.Instrs[len(pred.Instrs)-1]
	eachDominatingCond(last, func(c ssa.Value, pol bool) bool {
		out = append(out, condPol{c, pol})
		return false
	})
	if iff, ok := last.(*ssa.If); ok && len(pred.Succs) == 2 && pred.Succs[0] != pred.Succs[1] {
		c, pol := normCond(iff.Cond, pred.Succs[0] == succ)
		out = append(out, condPol{c, pol})
		out = append(out, expandShortCircuit(c, pol, 0)...)
	}
	return out
}

// valueWays: every way in which the boolean v can have the value pol. A constant is pol in one way without conditions or
// in no way; a phi is pol when one of its edges is taken and the value arriving there is pol; anything else is pol when
// it is pol (an atom). ok=false: too many ways to enumerate.
func valueWays(v ssa.Value, pol bool, depth int) (ways []condWay, ok bool) {
	v, pol = normCond(v, pol)
	if k, isC := constBool(v); isC {
		if k == pol {
			return []condWay{{}}, true
		}
		return nil, true
	}
	phi, isPhi := v.(*ssa.Phi)
	if !isPhi || depth > 6 {
		return []condWay{{{v, pol}}}, true
	}
	if bt, isB := phi.Type().Underlying().(*types.Basic); !isB || bt.Info()&types.IsBoolean == 0 {
		return []condWay{{{v, pol}}}, true
	}
	for i, e := range phi.Edges {
		ws, okE := valueWays(e, pol, depth+1)
		if !okE {
			return nil, false
		}
		if len(ws) == 0 {
			continue
		}
		pc := pathCondsInto(phi.Block().Preds[i], phi.Block())
		for _, w := range ws {
			ways = append(ways, append(append(condWay{}, pc...), w...))
		}
		if len(ways) > maxCondWays {
			return nil, false
		}
	}
	return ways, true
}

// smallPredicate: the static callee of a call when that is a small function of the package with one boolean result and
// no deferred calls: a test a maintainer has given a name.
func smallPredicate(p *Prog, c *ssa.Call) *ssa.Function {
	g := c.Common().StaticCallee()
	if g == nil || !p.InPkg(g) || g.Blocks == nil || len(g.Blocks) > 24 || g.Recover != nil {
		return nil
	}
	rs := g.Signature.Results()
	if rs.Len() != 1 {
		return nil
	}
	if bt, isB := rs.At(0).Type().Underlying().(*types.Basic); !isB || bt.Info()&types.IsBoolean == 0 {
		return nil
	}
	return g
}

// predicateWays: the ways in which predicate g returns pol (conditions are values of g).
func predicateWays(g *ssa.Function, pol bool) ([]condWay, bool) {
	var ways []condWay
	for _, ret := range returnsOf(g) {
		ws, ok := valueWays(res(ret, 0), pol, 0)
		if !ok {
			return nil, false
		}
		if len(ws) == 0 {
			continue
		}
		var pc []condPol
		eachDominatingCond(ret, func(c ssa.Value, cp bool) bool {
			pc = append(pc, condPol{c, cp})
			return false
		})
		for _, w := range ws {
			ways = append(ways, append(append(condWay{}, pc...), w...))
		}
		if len(ways) > maxCondWays {
			return nil, false
		}
	}
	return ways, true
}

// condHolds: the condition (c, pol) establishes what `test` looks for — itself, or, when c is the call of a small
// predicate function, because in EVERY way in which the predicate answers pol some condition inside it does (so a
// disjunction of two accepted tests is accepted, a disjunction with anything else is not). `chain` lists the predicate
// calls gone through, outermost first, so that the test can relate an operand inside a predicate to the argument
// passed at its call.
func condHolds(p *Prog, c ssa.Value, pol bool, chain []*ssa.Call, test func(c ssa.Value, pol bool, chain []*ssa.Call) bool) bool {
	if test(c, pol, chain) {
		return true
	}
	call, isCall := c.(*ssa.Call)
	if !isCall || len(chain) >= 3 {
		return false
	}
	g := smallPredicate(p, call)
	if g == nil {
		return false
	}
	ways, ok := predicateWays(g, pol)
	if !ok || len(ways) == 0 {
		return false
	}
	inner := append(append([]*ssa.Call{}, chain...), call)
	for _, w := range ways {
		found := false
		for _, cp := range w {
			if condHolds(p, cp.c, cp.pol, inner, test) {
				found = true
				break
			}
		}
		if !found {
			return false
		}
	}
	return true
}

// predicateConds: all conditions that occur in some way of the predicate called in c (for enumerating candidates; what
// holds is decided by condHolds).
func predicateConds(p *Prog, c ssa.Value, pol bool, depth int) []condPol {
	call, isCall := c.(*ssa.Call)
	if !isCall || depth >= 3 {
		return nil
	}
	g := smallPredicate(p, call)
	if g == nil {
		return nil
	}
	ways, ok := predicateWays(g, pol)
	if !ok {
		return nil
	}
	var out []condPol
	for _, w := range ways {
		for _, cp := range w {
			out = append(out, cp)
			out = append(out, predicateConds(p, cp.c, cp.pol, depth+1)...)
		}
	}
	return out
}

// outerOperand: the value in the outermost calling function that the operand v of a test inside a chain of predicate
// calls stands for: v must be a parameter of the innermost predicate, the argument passed for it a parameter of the
// next one, and so on. `field` names a field when the parameter is a struct (pointer) of which v loads that field.
// nil: v is not (a field of) a parameter.
func outerOperand(v ssa.Value, chain []*ssa.Call) (outer ssa.Value, field string) {
	for i := len(chain) - 1; i >= 0; i-- {
		v = stripLoad(v)
		if field == "" {
			if base, _, fld := fieldLoadBase(v); base != nil {
				v, field = stripLoad(base), fld
			}
		}
		pa, isP := v.(*ssa.Parameter)
		if !isP || pa.Parent() != chain[i].Common().StaticCallee() {
			return nil, ""
		}
		args := callArgs(chain[i].Common())
		idx := indexOfParam(pa.Parent(), pa)
		if idx >= len(args) {
			return nil, ""
		}
		v = args[idx]
	}
	return v, field
}

// eqlCond: (c, pol) read as an equality test `x == y` that holds (`==` on the true edge, `!=` on the false edge).
func eqlCond(c ssa.Value, pol bool) (*ssa.BinOp, bool) {
	bo, ok := c.(*ssa.BinOp)
	if !ok {
		return nil, false
	}
	if (bo.Op == token.EQL && pol) || (bo.Op == token.NEQ && !pol) {
		return bo, true
	}
	return nil, false
}

// clusterCallSites: the calls of g made from functions of the cluster.
func clusterCallSites(cluster []*ssa.Function, g *ssa.Function) []ssa.CallInstruction {
	var out []ssa.CallInstruction
	for _, fn := range cluster {
		out = append(out, callsTo(fn, g)...)
	}
	return out
}

// inheritedGuards: what holds whenever helper g of the cluster runs on behalf of root: guards(site) at a call site of g
// plus what that site's function inherits, intersected over all call sites in the cluster. Empty for root itself and
// for a helper that is not called in the cluster (a closure).
func inheritedGuards(cluster []*ssa.Function, root, g *ssa.Function, guards func(ssa.Instruction) map[string]bool, depth int) map[string]bool {
	if g == root || depth > 3 {
		return map[string]bool{}
	}
	var acc map[string]bool
	for _, site := range clusterCallSites(cluster, g) {
		here := map[string]bool{}
		for k := range guards(site) {
			here[k] = true
		}
		for k := range inheritedGuards(cluster, root, site.Parent(), guards, depth+1) {
			here[k] = true
		}
		if acc == nil {
			acc = here
			continue
		}
		for k := range acc {
			if !here[k] {
				delete(acc, k)
			}
		}
	}
	if acc == nil {
		acc = map[string]bool{}
	}
	return acc
}

// calledInLoop: helper g runs repeatedly on behalf of root: a call site of it in the cluster lies in a loop, or the
// function containing the site is itself called in a loop.
func calledInLoop(cluster []*ssa.Function, root, g *ssa.Function, depth int) bool {
	if g == root || depth > 3 {
		return false
	}
	sites := clusterCallSites(cluster, g)
	if len(sites) == 0 {
		return false
	}
	for _, site := range sites {
		if !inLoop(site) && !calledInLoop(cluster, root, site.Parent(), depth+1) {
			return false
		}
	}
	return true
}

// flowsFromCall: v is the result of `target`, possibly merged with other values at phis (as the fix-point loop does),
// handed through helpers of the cluster: a helper's result is what its returns yield, a helper's parameter what its
// callers pass.
func flowsFromCall(p *Prog, cluster []*ssa.Function, v ssa.Value, target *ssa.Call) bool {
	inCluster := map[*ssa.Function]bool{}
	for _, fn := range cluster {
		inCluster[fn] = true
	}
	seen := map[ssa.Value]bool{}
	found := false
	var walk func(v ssa.Value, d int)
	walk = func(v ssa.Value, d int) {
		if v == nil || seen[v] || found || d > 24 {
			return
		}
		seen[v] = true
		if v == ssa.Value(target) {
			found = true
			return
		}
		switch x := v.(type) {
		case *ssa.Phi:
			for _, e := range x.Edges {
				walk(e, d+1)
			}
		case *ssa.UnOp:
			if sv := localLoadValue(x); sv != nil {
				walk(sv, d+1)
			}
		case *ssa.Call:
			if g := x.Common().StaticCallee(); g != nil && inCluster[g] && g.Signature.Results().Len() == 1 {
				for _, ret := range returnsOf(g) {
					walk(res(ret, 0), d+1)
				}
			}
		case *ssa.Extract:
			if c, ok := x.Tuple.(*ssa.Call); ok {
				if g := c.Common().StaticCallee(); g != nil && inCluster[g] {
					for _, ret := range returnsOf(g) {
						if x.Index < len(ret.Results) {
							walk(res(ret, x.Index), d+1)
						}
					}
				}
			}
		case *ssa.Parameter:
			if inCluster[x.Parent()] {
				for _, a := range paramActuals(p, x) {
					walk(a, d+1)
				}
			}
		}
	}
	walk(v, 0)
	return found
}
