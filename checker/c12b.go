package main

// R-C12-METHODS: "Executing a template never adds, removes or changes entries of the Context map the caller passed or
// of the set's Globals". Callers nest Context values to build their data, and the resolver offers a template every
// exported method of the values it walks through (MethodByName). Context has an exported method that writes its
// receiver (Update): a template could call it on the caller's nested maps — {% set a = user.Update(extra) %}. So the
// resolver must not look methods up on a value of the library's own map type (or that type must have no method that
// writes its receiver).

import (
	"go/token"
	"go/types"

	"golang.org/x/tools/go/ssa"
)

func ruleC12Methods(p *Prog, a *Anchors, r *Report) {
	r.Begin("R-C12-METHODS", "the library's own map type Context has no exported method that writes its receiver, or the resolver looks methods up by name only on values that are not of that type: a template cannot change the caller's nested Context values or the Globals through Context.Update", 1)
	// exported methods of Context that write the receiver
	var writers []string
	for _, m := range p.Methods(a.Context) {
		if m.Object() == nil || !m.Object().Exported() || m.Blocks == nil {
			continue
		}
		for _, e := range p.Effects(m) {
			for _, rt := range e.Roots {
				if rt.Kind == RParam && rt.Fn == m && rt.Idx == 0 {
					writers = append(writers, m.Name())
				}
			}
		}
	}
	if len(writers) == 0 {
		r.Trivial("Context:methods", "-", "Context has no exported method that writes its receiver")
		return
	}
	// the reflect.Type of Context kept in a package variable
	var ctxType *ssa.Global
	for _, f := range p.inPkgFuncsSorted(p.allFuncSet()) {
		if f.Name() != "init" {
			continue
		}
		for _, b := range f.Blocks {
			for _, in := range b.Instrs {
				st, ok := in.(*ssa.Store)
				if !ok {
					continue
				}
				g, isG := st.Addr.(*ssa.Global)
				c, isC := st.Val.(*ssa.Call)
				if !isG || !isC || c.Common().StaticCallee() == nil || p.extName(c.Common().StaticCallee()) != "reflect.TypeOf" {
					continue
				}
				if mi, isMI := c.Common().Args[0].(*ssa.MakeInterface); isMI && types.Identical(mi.X.Type(), a.Context) {
					ctxType = g
				}
			}
		}
	}
	n := 0
	for _, f := range p.inPkgFuncsSorted(a.ExecReach()) {
		for _, b := range f.Blocks {
			for _, in := range b.Instrs {
				c, ok := in.(*ssa.Call)
				if !ok || c.Common().StaticCallee() == nil || p.extName(c.Common().StaticCallee()) != "(reflect.Value).MethodByName" {
					continue
				}
				n++
				key := p.FuncName(f) + ":MethodByName:not-on-Context"
				recv := c.Common().Args[0]
				guarded := ctxType != nil && Guarded(in, func(cond ssa.Value, pol bool) bool {
					bo, ok := cond.(*ssa.BinOp)
					if !ok || (bo.Op != token.NEQ && bo.Op != token.EQL) || (bo.Op == token.NEQ) != pol {
						return false
					}
					isTypeOfRecv := func(v ssa.Value) bool {
						if mi, isMI := v.(*ssa.MakeInterface); isMI {
							v = mi.X
						}
						tc, ok := v.(*ssa.Call)
						return ok && tc.Common().StaticCallee() != nil && p.extName(tc.Common().StaticCallee()) == "(reflect.Value).Type" && p.VN(tc.Common().Args[0]) == p.VN(recv)
					}
					isCtxType := func(v ssa.Value) bool {
						if mi, isMI := v.(*ssa.MakeInterface); isMI {
							v = mi.X
						}
						return isLoadOfGlobal(v, ctxType)
					}
					return (isTypeOfRecv(bo.X) && isCtxType(bo.Y)) || (isTypeOfRecv(bo.Y) && isCtxType(bo.X))
				})
				if guarded {
					r.OK(key, p.InstrPos(in), "methods are looked up only on values that are not a Context (whose %v writes its receiver)", writers)
				} else {
					r.Bad(key, p.InstrPos(in), "the resolver offers templates the methods of every value it walks through, also of a Context — whose exported method(s) %v write the receiver: {%% set a = user.Update(extra) %%} changes the caller's nested Context, {%% set b = site.Update(pongo2) %%} a Context kept in the set's Globals, for every later rendering", writers)
				}
			}
		}
	}
	if n == 0 {
		r.Trivial("MethodByName", "-", "execution never looks methods up by name")
	}
}
