package main

// R-C12-METHODS: "Executing a template never adds, removes or changes entries of the Context map the caller passed or
// of the set's Globals". Callers nest Context values to build their data, and the resolver offers a template every
// exported method of the values it walks through (MethodByName). Context has an exported method that writes its
// receiver (Update): a template could call it on the caller's nested maps — {% set a = user.Update(extra) %}. So the
// resolver must not look methods up on a value of the library's own map type (or that type must have no method that
// writes its receiver).

import (
	"fmt"
	"go/token"
	"go/types"
	"os"

	"golang.org/x/tools/go/ssa"
)

func ruleC12Methods(p *Prog, a *Anchors, r *Report) {
	r.Begin("R-C12-METHODS", "the library's own map type Context has no exported method that writes its receiver, or the resolver looks methods up by name only on values that are not of that type: a template cannot change the caller's nested Context values or the Globals through Context.Update", 1)
	// exported methods of Context that write the receiver
	var writers []string
	for _, m := range p.Methods(a.Context) {
		if m.Object() == nil || !m.Object().Exported() || m.Blocks == nil {
			continue
		}
		for _, e := range p.Effects(m) {
			for _, rt := range e.Roots {
				if rt.Kind == RParam && rt.Fn == m && rt.Idx == 0 {
					writers = append(writers, m.Name())
				}
			}
		}
	}
	if len(writers) == 0 {
		r.Trivial("Context:methods", "-", "Context has no exported method that writes its receiver")
		return
	}
	// the reflect.Type of Context kept in a package variable
	var ctxType *ssa.Global
	for _, f := range p.inPkgFuncsSorted(p.allFuncSet()) {
		if f.Name() != "init" {
			continue
		}
		for _, b := range f.Blocks {
			for _, in := range b.Instrs {
				st, ok := in.(*ssa.Store)
				if !ok {
					continue
				}
				g, isG := st.Addr.(*ssa.Global)
				c, isC := st.Val.(*ssa.Call)
				if !isG || !isC || c.Common().StaticCallee() == nil || p.extName(c.Common().StaticCallee()) != "reflect.TypeOf" {
					continue
				}
				if mi, isMI := c.Common().Args[0].(*ssa.MakeInterface); isMI && types.Identical(mi.X.Type(), a.Context) {
					ctxType = g
				}
			}
		}
	}
	n := 0
	for _, f := range p.inPkgFuncsSorted(a.ExecReach()) {
		for _, b := range f.Blocks {
			for _, in := range b.Instrs {
				c, ok := in.(*ssa.Call)
				if !ok || c.Common().StaticCallee() == nil || p.extName(c.Common().StaticCallee()) != "(reflect.Value).MethodByName" {
					continue
				}
				n++
				key := p.FuncName(f) + ":MethodByName:not-on-Context"
				recv := c.Common().Args[0]
				guarded := ctxType != nil && Guarded(in, func(cond ssa.Value, pol bool) bool {
					bo, ok := cond.(*ssa.BinOp)
					if !ok || (bo.Op != token.NEQ && bo.Op != token.EQL) || (bo.Op == token.NEQ) != pol {
						return false
					}
					isTypeOfRecv := func(v ssa.Value) bool {
						if mi, isMI := v.(*ssa.MakeInterface); isMI {
							v = mi.X
						}
						tc, ok := v.(*ssa.Call)
						return ok && tc.Common().StaticCallee() != nil && p.extName(tc.Common().StaticCallee()) == "(reflect.Value).Type" && p.VN(tc.Common().Args[0]) == p.VN(recv)
					}
					isCtxType := func(v ssa.Value) bool {
						if mi, isMI := v.(*ssa.MakeInterface); isMI {
							v = mi.X
						}
						return isLoadOfGlobal(v, ctxType)
					}
					return (isTypeOfRecv(bo.X) && isCtxType(bo.Y)) || (isTypeOfRecv(bo.Y) && isCtxType(bo.X))
				})
				// … or the test is a predicate of the package over the receiver's type (`!reachesContextMethod(current.Type(), name)`)
				var pred *ssa.Function
				var cands []*ssa.Function
				if !guarded && ctxType != nil {
					predGuard := Guarded(in, func(cond ssa.Value, pol bool) bool {
						// (the name is no method of Context at all — `_, is := typeOfContext.MethodByName(name); !is` — : nothing
						// of Context's can be found under it)
						if ex, isEx := cond.(*ssa.Extract); isEx && !pol && ex.Index == 1 {
							if mc, isC := ex.Tuple.(*ssa.Call); isC && mc.Common().IsInvoke() && mc.Common().Method.Name() == "MethodByName" && isLoadOfGlobal(mc.Common().Value, ctxType) {
								return true
							}
						}
						pc, ok := cond.(*ssa.Call)
						if !ok || pc.Common().StaticCallee() == nil || !p.InPkg(pc.Common().StaticCallee()) {
							return false
						}
						if pol {
							// an exception decided against Context's own method (`hidesContextMethod(T, name, ctxMethod)`: the
							// type declares a method of that name itself): a predicate that is handed the receiver's type and
							// the method found on the Context type
							hasT, hasM := false, false
							for _, arg := range pc.Common().Args {
								if mi, isMI := arg.(*ssa.MakeInterface); isMI {
									arg = mi.X
								}
								if tc, isC := arg.(*ssa.Call); isC && tc.Common().StaticCallee() != nil && p.extName(tc.Common().StaticCallee()) == "(reflect.Value).Type" && p.VN(tc.Common().Args[0]) == p.VN(recv) {
									hasT = true
								}
								if ex, isEx := arg.(*ssa.Extract); isEx && ex.Index == 0 {
									if mc, isC := ex.Tuple.(*ssa.Call); isC && mc.Common().IsInvoke() && mc.Common().Method.Name() == "MethodByName" && isLoadOfGlobal(mc.Common().Value, ctxType) {
										hasM = true
									}
								}
							}
							return hasT && hasM
						}
						for _, arg := range pc.Common().Args {
							if mi, isMI := arg.(*ssa.MakeInterface); isMI {
								arg = mi.X
							}
							if tc, isC := arg.(*ssa.Call); isC && tc.Common().StaticCallee() != nil && p.extName(tc.Common().StaticCallee()) == "(reflect.Value).Type" && p.VN(tc.Common().Args[0]) == p.VN(recv) {
								cands = append(cands, pc.Common().StaticCallee())
								return true
							}
						}
						return false
					})
					// (the guard probes edges that do not lead here as well: of the predicates it met, the one that
					// compares with the Context type is the test)
					if predGuard {
						for _, cand := range cands {
							if c12ComparesWithGlobal(p, cand, ctxType, 0, map[*ssa.Function]bool{}) {
								pred = cand
								break
							}
						}
					}
					if os.Getenv("PONGOCHECK_DEBUG") != "" {
						fmt.Fprintf(os.Stderr, "METHODS debug: predGuard=%v pred=%v\n", predGuard, pred)
					}
				}
				exact, ptr, emb := guarded, false, false
				if pred != nil {
					seenF := map[*ssa.Function]bool{}
					var scan func(g *ssa.Function, d int)
					scan = func(g *ssa.Function, d int) {
						if g == nil || g.Blocks == nil || seenF[g] || d > 3 {
							return
						}
						seenF[g] = true
						for _, gb := range g.Blocks {
							for _, gi := range gb.Instrs {
								switch x := gi.(type) {
								case *ssa.BinOp:
									if x.Op == token.EQL || x.Op == token.NEQ {
										for _, side := range []ssa.Value{x.X, x.Y} {
											if mi, isMI := side.(*ssa.MakeInterface); isMI {
												side = mi.X
											}
											if isLoadOfGlobal(side, ctxType) {
												exact = true
											}
										}
									}
								case *ssa.Call:
									if x.Common().IsInvoke() && x.Common().Method.Name() == "Elem" {
										ptr = true
									}
									if cal := x.Common().StaticCallee(); cal != nil && p.InPkg(cal) {
										scan(cal, d+1)
									}
								case *ssa.Field:
									if n := structOf(x.X.Type()); n != nil && n.Obj().Name() == "StructField" && fieldName(x.X.Type(), x.Field) == "Anonymous" && fromFieldByIndex(x.X) {
										emb = true
									}
								case *ssa.FieldAddr:
									if n := structOf(x.X.Type()); n != nil && n.Obj().Name() == "StructField" && fieldName(x.X.Type(), x.Field) == "Anonymous" && fromFieldByIndex(x.X) {
										emb = true
									}
								}
							}
						}
					}
					scan(pred, 0)
				}
				if exact {
					r.OK(key, p.InstrPos(in), "methods are looked up only on values that are not a Context (whose %v writes its receiver)", writers)
					// the method set of *Context, and of a struct that embeds a Context, contains the same methods
					if ptr {
						r.OK(p.FuncName(f)+":MethodByName:nor-behind-a-pointer", p.InstrPos(in), "the test follows pointers (Elem) before it compares the type")
					} else {
						r.Bad(p.FuncName(f)+":MethodByName:nor-behind-a-pointer", p.InstrPos(in), "the test compares the receiver's type with Context itself only: a *Context (ctx[\"self\"] = &ctx, Globals[\"conf\"] = &set.Globals) has %v in its method set as well, the method is looked up before pointers are followed, and {%% set r = self.Update(extra) %%} writes the caller's map or the set's Globals", writers)
					}
					if emb {
						r.OK(p.FuncName(f)+":MethodByName:nor-embedded", p.InstrPos(in), "the test looks into embedded fields (StructField.Anonymous)")
					} else {
						r.Bad(p.FuncName(f)+":MethodByName:nor-embedded", p.InstrPos(in), "the test compares the receiver's type with Context itself only: a struct that embeds a Context (type Page struct{ pongo2.Context; … }) has %v promoted into its method set, and {%% set r = page.Update(extra) %%} writes the embedded map — the caller's", writers)
					}
				} else {
					r.Bad(key, p.InstrPos(in), "the resolver offers templates the methods of every value it walks through, also of a Context — whose exported method(s) %v write the receiver: {%% set a = user.Update(extra) %%} changes the caller's nested Context, {%% set b = site.Update(pongo2) %%} a Context kept in the set's Globals, for every later rendering", writers)
				}
			}
		}
	}
	if n == 0 {
		r.Trivial("MethodByName", "-", "execution never looks methods up by name")
	}
}

// R-C12-STATESCOPE: "macros … see the scope they are called/defined in; a `with`/`for`/macro scope ends with its
// block". What a node keeps for the whole rendering (the node state shared by every context of the rendering) outlives
// every scope: a function value or record stored there must not hold on to one scope's ExecutionContext — it would go
// on running in a scope that has ended (the first pass of a loop, the first call of a macro).
func ruleC12StateScope(p *Prog, a *Anchors, r *Report) { ruleStateScope(p, a, r, "R-C12-STATESCOPE") }

// ruleStateScope: shared with C13 (an imported or local macro bound again in another scope runs in that scope).
func ruleStateScope(p *Prog, a *Anchors, r *Report, rule string) {
	r.Begin(rule, "nothing kept in the per-rendering node state refers to a scope's ExecutionContext (no closure over ctx, no record holding one)", 2)
	// the rendering-wide table: a map field of ExecutionContext keyed by INode
	st := a.ExecCtx.Underlying().(*types.Struct)
	field := ""
	for i := 0; i < st.NumFields(); i++ {
		if m, ok := st.Field(i).Type().Underlying().(*types.Map); ok {
			if n, ok := m.Key().(*types.Named); ok && n.Obj().Name() == "INode" {
				field = st.Field(i).Name()
			}
		}
	}
	if field == "" {
		r.Unk("anchor", "-", "anchor unresolved: the map field of ExecutionContext keyed by INode")
		return
	}
	ctxPtr := types.NewPointer(a.ExecCtx)
	holdsCtx := func(T types.Type) bool {
		return types.Identical(T, ctxPtr) || typeHolds(T, a.ExecCtx, map[types.Type]bool{})
	}
	n := 0
	var judge func(v ssa.Value, at ssa.Instruction, where string, depth int)
	judge = func(v ssa.Value, at ssa.Instruction, where string, depth int) {
		if mi, ok := v.(*ssa.MakeInterface); ok {
			v = mi.X
		}
		if pa, ok := v.(*ssa.Parameter); ok && depth < 3 {
			sites := paramActualSites(p, pa)
			if len(sites) == 0 {
				r.Unk(where+":stored", p.InstrPos(at), "what is stored cannot be related to its callers")
				return
			}
			for _, s := range sites {
				judge(s.val, s.site, p.FuncName(topLevel(s.site.Parent())), depth+1)
			}
			return
		}
		n++
		key := where + ":keeps"
		switch x := v.(type) {
		case *ssa.MakeClosure:
			for i, b := range x.Bindings {
				T := b.Type()
				if pt, ok := T.(*types.Pointer); ok {
					if _, isAlloc := b.(*ssa.Alloc); isAlloc {
						T = pt.Elem() // a captured variable: what it holds
					}
				}
				if holdsCtx(T) {
					fv := "?"
					if fn, ok := x.Fn.(*ssa.Function); ok && i < len(fn.FreeVars) {
						fv = fn.FreeVars[i].Name()
					}
					r.Bad(key, p.InstrPos(at), "a function value that captured the execution context (%s) is kept for the whole rendering: it goes on running in the scope it was made in, also after that scope has ended (the with-pairs, macro arguments or loop variable of the first pass)", fv)
					return
				}
			}
			r.OK(key, p.InstrPos(at), "the function value kept captures no execution context")
		default:
			// a table of function values (name → function): what is put into it
			if c12HoldsFuncs(v.Type()) {
				for _, fn := range withClosures(topLevel(at.Parent())) {
					for _, b := range fn.Blocks {
						for _, in := range b.Instrs {
							mu, isMU := in.(*ssa.MapUpdate)
							if !isMU || !types.Identical(mu.Map.Type(), v.Type()) {
								continue
							}
							val := mu.Value
							if mi, isMI := val.(*ssa.MakeInterface); isMI {
								val = mi.X
							}
							if mc, isMC := val.(*ssa.MakeClosure); isMC {
								for _, bnd := range mc.Bindings {
									T := bnd.Type()
									if pt, isP := T.(*types.Pointer); isP {
										if _, isAlloc := bnd.(*ssa.Alloc); isAlloc {
											T = pt.Elem()
										}
									}
									if holdsCtx(T) {
										r.Bad(key, p.InstrPos(in), "a table of function values kept for the whole rendering is filled with functions that captured the execution context of the scope they were made in: bound again later (another pass of a loop, another call of a macro, an included template) they still run in that first scope")
										return
									}
								}
							}
						}
					}
				}
			}
			if holdsCtx(v.Type()) {
				r.Bad(key, p.InstrPos(at), "a value of type %s, which holds an execution context, is kept for the whole rendering: it outlives the scope it was made in", types.TypeString(v.Type(), types.RelativeTo(a.ExecCtx.Obj().Pkg())))
				return
			}
			r.OK(key, p.InstrPos(at), "%s holds no execution context", types.TypeString(v.Type(), types.RelativeTo(a.ExecCtx.Obj().Pkg())))
		}
	}
	for _, f := range p.Funcs {
		for _, b := range f.Blocks {
			for _, in := range b.Instrs {
				mu, ok := in.(*ssa.MapUpdate)
				if !ok || !loadsField(mu.Map, "ExecutionContext", field) {
					continue
				}
				judge(mu.Value, in, p.FuncName(topLevel(f)), 0)
			}
		}
	}
	if n == 0 {
		r.Unk("none", "-", "no store into ExecutionContext.%s found", field)
	}
}

// c12HoldsFuncs: T is a map or slice whose elements are function values (or interfaces, which may hold them).
func c12HoldsFuncs(T types.Type) bool {
	var el types.Type
	switch u := T.Underlying().(type) {
	case *types.Map:
		el = u.Elem()
	case *types.Slice:
		el = u.Elem()
	default:
		return false
	}
	_, isSig := el.Underlying().(*types.Signature)
	return isSig
}

// fromFieldByIndex: the reflect.StructField comes from Type.Field(i) — one of ALL the fields, as a walk over them sees
// it — and not from a lookup by name (FieldByName finds the field called Context, not every embedded field through
// which Context's methods are promoted: an alias `type Vars = Context` embeds under the name Vars).
func fromFieldByIndex(v ssa.Value) bool {
	for i := 0; i < 4; i++ {
		switch x := v.(type) {
		case *ssa.Call:
			return x.Common().IsInvoke() && x.Common().Method.Name() == "Field"
		case *ssa.UnOp:
			if sv := stripLoad(x); sv != ssa.Value(x) {
				v = sv
				continue
			}
			if al, ok := x.X.(*ssa.Alloc); ok {
				for _, sv := range allStoresTo(al) {
					if fromFieldByIndex(sv) {
						return true
					}
				}
			}
			return false
		case *ssa.Alloc:
			for _, sv := range allStoresTo(x) {
				if fromFieldByIndex(sv) {
					return true
				}
			}
			return false
		default:
			return false
		}
	}
	return false
}

// c12ComparesWithGlobal: g (or a function of the package it calls, three levels) compares something with the value of
// the package variable glob.
func c12ComparesWithGlobal(p *Prog, g *ssa.Function, glob *ssa.Global, d int, seen map[*ssa.Function]bool) bool {
	if g == nil || g.Blocks == nil || seen[g] || d > 3 {
		return false
	}
	seen[g] = true
	for _, b := range g.Blocks {
		for _, in := range b.Instrs {
			switch x := in.(type) {
			case *ssa.BinOp:
				if x.Op == token.EQL || x.Op == token.NEQ {
					for _, side := range []ssa.Value{x.X, x.Y} {
						if mi, isMI := side.(*ssa.MakeInterface); isMI {
							side = mi.X
						}
						if isLoadOfGlobal(side, glob) {
							return true
						}
					}
				}
			case *ssa.Call:
				if cal := x.Common().StaticCallee(); cal != nil && p.InPkg(cal) && c12ComparesWithGlobal(p, cal, glob, d+1, seen) {
					return true
				}
			}
		}
	}
	return false
}
