package main

// pool.go: discipline of pooled objects (sync.Pool). Today the engine has no pool; the rule exists because pooling
// output buffers is the obvious optimisation and has two classic failure modes that break C04/C05:
// (1) an object taken from the pool is used without being reset (state of an earlier execution leaks),
// (2) memory of an object is still referenced by a returned value after the object went back to the pool.

import (
	"go/types"
	"strings"

	"golang.org/x/tools/go/ssa"
)

func isPoolCall(p *Prog, in ssa.Instruction, method string) (*ssa.CallCommon, bool) {
	ci, ok := in.(ssa.CallInstruction)
	if !ok || ci.Common().StaticCallee() == nil {
		return nil, false
	}
	if p.extName(ci.Common().StaticCallee()) != "(*sync.Pool)."+method {
		return nil, false
	}
	return ci.Common(), true
}

func rulePoolDiscipline(p *Prog, a *Anchors, r *Report, rule string) {
	r.Begin(rule, "pooled objects (sync.Pool): an object taken from a pool is reset before any other use, and nothing that aliases its memory is returned after it was put back", 1)
	n := 0
	for _, f := range p.Funcs {
		// values put back in this function (also by deferred calls)
		var puts []ssa.Value
		for _, b := range f.Blocks {
			for _, in := range b.Instrs {
				if cc, ok := isPoolCall(p, in, "Put"); ok {
					puts = append(puts, stripConv(cc.Args[1]))
				}
				cc, ok := isPoolCall(p, in, "Get")
				if !ok {
					continue
				}
				_ = cc
				n++
				// the object: the Get result, possibly type-asserted
				got := in.(ssa.Value)
				var objs []ssa.Value
				objs = append(objs, got)
				for _, u := range refs(got) {
					if ta, ok := u.(*ssa.TypeAssert); ok {
						objs = append(objs, ta)
						for _, uu := range refs(ta) {
							if ex, ok := uu.(*ssa.Extract); ok && ex.Index == 0 {
								objs = append(objs, ex)
							}
						}
					}
				}
				obj := objs[len(objs)-1]
				key := p.FuncName(f) + ":Pool.Get"
				// every use other than Reset/Truncate(0)/nil-test must come after a reset
				isReset := func(x ssa.Instruction) bool {
					c, ok := x.(*ssa.Call)
					if !ok || c.Common().StaticCallee() == nil || len(c.Common().Args) == 0 || c.Common().Args[0] != obj {
						return false
					}
					name := c.Common().StaticCallee().Name()
					if name == "Reset" {
						return true
					}
					if name == "Truncate" {
						k, isC := constInt(c.Common().Args[1])
						return isC && k == 0
					}
					return false
				}
				bad := ""
				for _, u := range refs(obj) {
					if isReset(u) {
						continue
					}
					if bo, isBin := u.(*ssa.BinOp); isBin && (isNilConst(bo.X) || isNilConst(bo.Y)) {
						continue
					}
					if _, isPut := isPoolCall(p, u, "Put"); isPut {
						continue
					}
					if !MustPassFrom(in.Block(), instrIndex(in)+1, u, isReset) {
						bad = p.InstrPos(u)
					}
				}
				if bad == "" {
					r.OK(key, p.InstrPos(in), "the pooled object is reset before every other use")
				} else {
					r.Bad(key, p.InstrPos(in), "an object taken from the pool is used at %s without having been reset: content left by an earlier (possibly failed) execution leaks into this one", bad)
				}
			}
		}
		if len(puts) == 0 {
			continue
		}
		for _, ret := range returnsOf(f) {
			for i := range ret.Results {
				v := res(ret, i)
				c, ok := v.(*ssa.Call)
				if !ok || c.Common().StaticCallee() == nil {
					continue
				}
				name := p.extName(c.Common().StaticCallee())
				if !strings.HasSuffix(name, ".Bytes") && !strings.HasSuffix(name, ".Next") {
					continue
				}
				if _, isSlice := c.Type().Underlying().(*types.Slice); !isSlice {
					continue
				}
				for _, pv := range puts {
					if len(c.Common().Args) > 0 && (c.Common().Args[0] == pv || p.VN(c.Common().Args[0]) == p.VN(pv)) {
						n++
						r.Bad(p.FuncName(f)+":return aliases pooled object", p.InstrPos(ret), "the function returns %s, which shares memory with an object it hands back to the pool: the next execution that takes the object overwrites the caller's bytes (and races with it)", name)
					}
				}
			}
		}
	}
	if n == 0 {
		r.Trivial("count", "-", "the engine uses no sync.Pool (0 Get/Put sites)")
	}
}

// poolGetTypes: for x = pool.Get(): the concrete types the pool can hold (its New function and every Put), or nil.
func poolGetTypes(p *Prog, v ssa.Value) *TypeSet {
	c, ok := v.(*ssa.Call)
	if !ok || c.Common().StaticCallee() == nil || p.extName(c.Common().StaticCallee()) != "(*sync.Pool).Get" {
		return nil
	}
	pool := c.Common().Args[0]
	pk := p.VN(pool)
	ts := &TypeSet{}
	found := false
	p.EachInstr(func(f *ssa.Function, in ssa.Instruction) {
		// Put(x)
		if cc, ok := isPoolCall(p, in, "Put"); ok && p.VN(cc.Args[0]) == pk {
			if mi, ok := cc.Args[1].(*ssa.MakeInterface); ok {
				ts.add(mi.X.Type())
			} else {
				ts.Top, ts.Why = true, "Put of an interface value"
			}
		}
		// New: store to the pool's New field
		st, ok := in.(*ssa.Store)
		if !ok {
			return
		}
		fa, ok := st.Addr.(*ssa.FieldAddr)
		if !ok || fieldName(fa.X.Type(), fa.Field) != "New" || p.VN(fa.X) != pk {
			return
		}
		var fn *ssa.Function
		switch x := st.Val.(type) {
		case *ssa.Function:
			fn = x
		case *ssa.MakeClosure:
			fn = x.Fn.(*ssa.Function)
		}
		if fn == nil {
			ts.Top, ts.Why = true, "New is not a function literal"
			return
		}
		found = true
		for _, ret := range returnsOf(fn) {
			if mi, ok := res(ret, 0).(*ssa.MakeInterface); ok {
				ts.add(mi.X.Type())
			} else {
				ts.Top, ts.Why = true, "New returns an interface value"
			}
		}
	})
	if !found {
		ts.Nil = true // Get returns nil when New is unset and the pool is empty
	}
	return ts
}
