package main

// C04 — execution never alters the compiled template.
// R-C04-STORE (engine E), R-C04-NONDET, R-C04-NOSET (reflect.Set*/unsafe count 0).

import (
	"go/token"
	"go/types"
	"strings"

	"golang.org/x/tools/go/ssa"
)

func init() { register("C04", checkC04) }

func checkC04(p *Prog, r *Report) {
	defer func() {
		if a := ResolveAnchors(p); len(a.err) == 0 {
			ruleC04GlobalRef(p, a, r, "R-C04-GLOBALREF")
			ruleC04MapKeys(p, a, r, "R-C04-MAPKEYS")
		}
	}()
	a := ResolveAnchors(p)
	if !anchorCheck(a, r) {
		return
	}
	ruleC04Store(p, a, r, "R-C04-STORE", nil)
	ruleNoReflectSet(p, r, "R-C04-NOSET")
	rulePoolDiscipline(p, a, r, "R-C04-POOL")
	ruleC04Nondet(p, a, r)
	ruleC04Close(p, a, r)
}

func entrySet(a *Anchors) map[*ssa.Function]bool {
	m := map[*ssa.Function]bool{}
	for _, f := range a.ExecEntries {
		m[f] = true
	}
	m[a.ExecCore] = true
	return m
}

// ruleC04Store: no store into compiled-tree memory (or package-level variables) from execution-reachable
// code unless the written object was allocated by the same execution. If onlyTypes != nil the rule is
// restricted to those container types (used by C09 for cycle/ifchanged).
func ruleC04Store(p *Prog, a *Anchors, r *Report, rule string, onlyTypes map[string]bool) {
	r.Begin(rule, "stores reachable from Execute*/Evaluate/filters write only per-execution or freshly allocated memory, never the compiled tree or package variables", 40)
	reach := a.ExecReach()
	n := 0
	for _, je := range p.JudgeEffects(reach, entrySet(a)) {
		e := je.E
		if onlyTypes != nil && !onlyTypes[e.Target.Type] {
			continue
		}
		n++
		key := p.effectKey(e)
		pos := p.InstrPos(e.Instr)
		nf, where := je.nonFresh()
		switch {
		case e.Target.Type == "<global>":
			r.Bad(key, pos, "%s: execution-reachable code writes a package-level variable (shared by all templates and goroutines)", e.Desc)
		case len(nf) == 0:
			r.OK(key, pos, "%s: every root is allocated by the running execution (%s)", e.Desc, rootsString(je.Contexts[0].Roots))
		case a.CompiledTypes[e.Target.Type]:
			r.Bad(key, pos, "%s: compiled-tree memory is written during execution; origin %s (judged in %s)", e.Desc, rootsString(nf), where)
		case e.Target.Type == "TemplateSet":
			r.Trivial(key, pos, "%s: set state, decided under C05/C20 (lock discipline)", e.Desc)
		case a.PerExecTypes[e.Target.Type] || e.Target.Type == "Context":
			if g := globalRoot(nf); g != "" {
				r.Bad(key, pos, "%s: the %s written here can be the object kept in package-level variable %s (shared by all executions): what one execution writes into it, every later one sees; origin %s (judged in %s)", e.Desc, e.Target.Type, g, rootsString(nf), where)
			} else if fr := foreignRoot(nf); fr != "" && token.IsExported(e.Target.Type) {
				// (an unexported type cannot be constructed by registered code: such an object is the engine's own)
				r.Bad(key, pos, "%s: the %s written here can be an object that registered code handed out (%s): a filter, tag or macro may return one and the same value every time (a sentinel *Error), so what one execution writes into it the next one — and a concurrent one — sees; origin %s (judged in %s)", e.Desc, e.Target.Type, fr, rootsString(nf), where)
			} else {
				r.OK(key, pos, "%s: per-execution type %s", e.Desc, e.Target.Type)
			}
		default:
			// container not identified by a struct type: decide by the types the roots pass through
			bad := ""
			for _, rt := range nf {
				for _, ow := range rt.Owners {
					if a.CompiledTypes[ow.Type] {
						bad = ow.Type + "." + ow.Field
					}
				}
				if n := structOf(rt.Typ); n != nil && a.CompiledTypes[n.Obj().Name()] && rt.Kind == RParam {
					bad = n.Obj().Name()
				}
			}
			if bad != "" {
				r.Bad(key, pos, "%s: memory reached through compiled-tree field %s is written during execution; origin %s", e.Desc, bad, rootsString(nf))
			} else if onlyUnknownLib(nf) {
				r.OK(key, pos, "%s: target is not reachable from a compiled-tree type (roots %s)", e.Desc, rootsString(nf))
			} else {
				r.OK(key, pos, "%s: target is not compiled-tree memory (roots %s)", e.Desc, rootsString(nf))
			}
		}
	}
	r.Extra["exec_reachable_functions"] = len(p.inPkgFuncsSorted(reach))
	r.Extra["compiled_tree_types"] = sortedKeys(a.CompiledTypes)
	r.Extra["per_execution_types"] = sortedKeys(a.PerExecTypes)
}

// foreignRoot: an origin that is the result of a call through a function value (registered filter / tag parser /
// macro): the engine does not own what such a call returns.
func foreignRoot(rs []Root) string {
	for _, r := range rs {
		if r.Kind == RUnknown && strings.HasPrefix(r.Name, "dynamic call") {
			return r.Name
		}
	}
	return ""
}

// globalRoot: name of a package-level variable among the origins, or "".
func globalRoot(rs []Root) string {
	for _, r := range rs {
		if r.Kind == RGlobal {
			return r.Name
		}
	}
	return ""
}

func onlyUnknownLib(rs []Root) bool {
	for _, r := range rs {
		if r.Kind != RUnknown {
			return false
		}
	}
	return true
}

func sortedKeys(m map[string]bool) []string {
	var out []string
	for k, v := range m {
		if v {
			out = append(out, k)
		}
	}
	sortStrings(out)
	return out
}

// ruleNoReflectSet: the engine never writes through reflection or unsafe (expected count 0).
func ruleNoReflectSet(p *Prog, r *Report, rule string) {
	r.Begin(rule, "no reflect.Value.Set*/reflect.Copy/unsafe in the engine (caller data cannot be written through reflection)", 1)
	n := 0
	p.EachInstr(func(f *ssa.Function, in ssa.Instruction) {
		ci, ok := in.(ssa.CallInstruction)
		if !ok {
			return
		}
		callee := ci.Common().StaticCallee()
		if callee == nil || callee.Pkg == nil {
			return
		}
		name := p.extName(callee)
		if callee.Pkg.Pkg.Path() == "reflect" && (strings.Contains(name, ").Set") || name == "reflect.Copy" || name == "reflect.Swapper" || strings.Contains(name, ").Send") || strings.Contains(name, ".Clear")) {
			n++
			r.Bad(p.FuncName(f)+":"+name, p.InstrPos(in), "write through reflection: %s", name)
		}
		if callee.Pkg.Pkg.Path() == "unsafe" {
			n++
			r.Bad(p.FuncName(f)+":"+name, p.InstrPos(in), "unsafe")
		}
	})
	for _, imp := range p.Pkg.Types.Imports() {
		if imp.Path() == "unsafe" {
			r.Bad("import unsafe", "-", "package imports unsafe")
			n++
		}
	}
	if n == 0 {
		r.Trivial("count", "-", "0 reflect.Set*/Copy/unsafe call sites in %d functions", len(p.Funcs))
	}
}

// allowed nondeterminism sources (documented constructs), by function
var nondetAllowed = map[string]string{
	"(*tagNowNode).Execute|time.Now":         "`now` tag is documented to print the clock",
	"(*tagLoremNode).Execute|math/rand.Intn": "`lorem … random` is documented as random",
	"filterRandom|math/rand.Intn":            "`random` filter is documented as random",
}

// map ranges whose body is order-insensitive by a reviewed algebraic argument
var mapRangeAssumed = map[string]string{
	"filterPhone2numeric": "replacements map distinct letters to digits; no replacement output is another key, so the steps commute",
}

func ruleC04Nondet(p *Prog, a *Anchors, r *Report) {
	r.Begin("R-C04-NONDET", "sources of run-to-run difference reachable from execution: clock, randomness, order-sensitive ranges over maps", 5)
	reach := a.ExecReach()
	for _, f := range p.inPkgFuncsSorted(reach) {
		fname := p.FuncName(f)
		for _, b := range f.Blocks {
			for _, in := range b.Instrs {
				switch in := in.(type) {
				case ssa.CallInstruction:
					callee := in.Common().StaticCallee()
					if callee == nil || callee.Pkg == nil {
						continue
					}
					path := callee.Pkg.Pkg.Path()
					name := p.extName(callee)
					if (path == "time" && (callee.Name() == "Now" || callee.Name() == "Since" || callee.Name() == "Until")) || path == "math/rand" || path == "math/rand/v2" || path == "crypto/rand" {
						key := fname + "|" + name
						why, ok := nondetAllowed[key]
						if !ok {
							// a helper only ever called from an allowed function shares its exemption
							if p.staticOnly(f, nil) {
								all := true
								for _, e := range p.CG.Nodes[f].In {
									if w, okc := nondetAllowed[p.FuncName(topLevel(e.Site.Parent()))+"|"+name]; okc {
										why = w
									} else {
										all = false
									}
								}
								if all && why != "" {
									ok = true
									key = p.FuncName(topLevel(p.CG.Nodes[f].In[0].Site.Parent())) + "|" + name + " (via helper)"
								}
							}
						}
						if ok {
							r.Assume(key, p.InstrPos(in), "documented exclusion: %s", why)
						} else {
							r.Bad(key, p.InstrPos(in), "execution-reachable call of %s makes two executions with equal contexts differ", name)
						}
					}
				case *ssa.Range:
					if _, isMap := in.X.Type().Underlying().(*types.Map); !isMap {
						continue
					}
					sens, why := mapRangeOrderSensitive(p, a, in)
					key := "range " + mapRangeSignature(p, in)
					switch {
					case !sens:
						r.OK(key, p.InstrPos(in), "range over map with order-insensitive body (%s)", why)
					case mapRangeAssumed[topLevel(f).Name()] != "":
						r.Assume(key, p.InstrPos(in), "%s; reviewed: %s", why, mapRangeAssumed[topLevel(f).Name()])
					default:
						r.Bad(key, p.InstrPos(in), "range over a map in Go's random order with an order-sensitive body: %s", why)
					}
				}
			}
		}
	}
}

// mapRangeSignature describes a range-over-map loop by WHAT is ranged and what its body consults, not by the
// function it happens to live in (so that moving the loop into a helper keeps its identity).
func mapRangeSignature(p *Prog, rg *ssa.Range) string {
	what := typeName(rg.X.Type())
	if _, n, fld := fieldLoadBase(rg.X); n != nil {
		what = n.Obj().Name() + "." + fld
	} else if g := globalLoaded(rg.X); g != nil {
		what = "global " + g.Name()
	}
	// body signature: first looked-up field / first static callee of the package inside the loop
	var header *ssa.BasicBlock
	for _, u := range refs(rg) {
		if nx, ok := u.(*ssa.Next); ok {
			header = nx.Block()
		}
	}
	sig := ""
	if header != nil && len(header.Succs) == 2 {
		seen := map[*ssa.BasicBlock]bool{header: true}
		work := []*ssa.BasicBlock{header.Succs[0]}
		var notes []string
		for len(work) > 0 {
			b := work[0]
			work = work[1:]
			if seen[b] {
				continue
			}
			seen[b] = true
			for _, in := range b.Instrs {
				switch x := in.(type) {
				case *ssa.Lookup:
					if _, n, fld := fieldLoadBase(x.X); n != nil {
						notes = append(notes, "lookup "+n.Obj().Name()+"."+fld)
					}
				case ssa.CallInstruction:
					cc := x.Common()
					if cc.IsInvoke() {
						notes = append(notes, "invoke "+cc.Method.Name())
					} else if cal := cc.StaticCallee(); cal != nil && cal.Pkg != nil && !p.InPkg(cal) && cal.Signature.Recv() != nil {
						notes = append(notes, cal.Name())
					}
				}
			}
			for _, s := range b.Succs {
				work = append(work, s)
			}
		}
		sortStrings(notes)
		for i, n := range notes {
			if i == 0 || notes[i-1] != n {
				sig += " " + n
			}
			if len(sig) > 60 {
				break
			}
		}
	}
	return what + ":" + strings.TrimSpace(sig)
}

// mapRangeOrderSensitive inspects the body of a range-over-map loop.
func mapRangeOrderSensitive(p *Prog, a *Anchors, rg *ssa.Range) (bool, string) {
	// find the Next and its header block
	var header *ssa.BasicBlock
	var next *ssa.Next
	for _, u := range refs(rg) {
		if nx, ok := u.(*ssa.Next); ok {
			next = nx
			header = nx.Block()
		}
	}
	if header == nil || len(header.Succs) != 2 {
		return true, "loop shape not recognised"
	}
	body := header.Succs[0]
	// blocks reachable from the body start, stopping at the header
	seen := map[*ssa.BasicBlock]bool{body: true, header: true}
	work := []*ssa.BasicBlock{body}
	var blocks []*ssa.BasicBlock
	for len(work) > 0 {
		b := work[len(work)-1]
		work = work[:len(work)-1]
		blocks = append(blocks, b)
		for _, s := range b.Succs {
			if !seen[s] {
				seen[s] = true
				work = append(work, s)
			}
		}
	}
	// "collect the keys, then sort them": a slice that only accumulates in the loop and is handed to sort.* right
	// after it, before any other use, does not carry the map's order out of the loop
	sortedAcc := map[ssa.Value]bool{}
	f := header.Parent()
	for _, in := range header.Instrs {
		phi, ok := in.(*ssa.Phi)
		if !ok {
			continue
		}
		if _, isSlice := phi.Type().Underlying().(*types.Slice); !isSlice {
			continue
		}
		var sortCall ssa.Instruction
		otherUseOutside := false
		for _, u := range refs(phi) {
			if seen[u.Block()] && u.Block() != header || u.Block() == header {
				continue // uses inside the loop (the append)
			}
			if c, isCall := u.(*ssa.Call); isCall && c.Common().StaticCallee() != nil {
				n := p.extName(c.Common().StaticCallee())
				if n == "sort.Strings" || n == "sort.Ints" || n == "sort.Float64s" || n == "sort.Slice" || n == "sort.SliceStable" || n == "slices.Sort" {
					sortCall = c
					continue
				}
			}
			if _, isMI := u.(*ssa.MakeInterface); isMI {
				continue // argument of sort.Slice(any, less)
			}
			if _, isRet := u.(*ssa.Return); isRet {
				continue
			}
			if _, isPhi := u.(*ssa.Phi); isPhi {
				continue
			}
			otherUseOutside = true
		}
		if sortCall == nil || otherUseOutside {
			continue
		}
		// every return passes the sort
		all := true
		for _, ret := range returnsOf(f) {
			if !MustPass(ret, func(x ssa.Instruction) bool { return x == sortCall }) {
				all = false
			}
		}
		if all {
			sortedAcc[phi] = true
		}
	}
	// early exits: blocks that cannot get back to the header are exits; if such a block returns a
	// non-constant value the result depends on which key came first.
	// (blocks after the loop are reachable only through the header's false edge, which we stop at.)
	for _, b := range blocks {
		for _, in := range b.Instrs {
			switch in := in.(type) {
			case *ssa.Return:
				return true, "early return from inside the loop (which key triggers it first depends on map order)"
			case ssa.CallInstruction:
				cc := in.Common()
				if cc.IsInvoke() && (cc.Method.Name() == "WriteString" || cc.Method.Name() == "Write") {
					return true, "writes output inside the loop"
				}
				if cc.IsInvoke() && cc.Method.Name() == "Execute" {
					return true, "executes nodes inside the loop"
				}
				if b, ok := cc.Value.(*ssa.Builtin); ok && b.Name() == "append" {
					if sortedAcc[cc.Args[0]] {
						continue // keys collected for sorting
					}
					return true, "appends inside the loop (element order follows map order)"
				}
			}
		}
	}
	// loop-carried values other than the iterator
	for _, in := range header.Instrs {
		if phi, ok := in.(*ssa.Phi); ok {
			_ = next
			if sortedAcc[phi] {
				continue
			}
			return true, "loop-carried value " + phi.Name() + " (" + phi.Comment + ") accumulates in map order"
		}
	}
	return false, "only per-key map updates / no output, no early exit, no accumulation"
}

// ruleC04GlobalRef: nothing mutable that lives in a package-level variable is handed to templates. A template can call
// exported methods of what it finds in its context (Context.Update …), so a package-level map, slice or pointer stored
// into a context is writable by every template and shared by all executions.
func ruleC04GlobalRef(p *Prog, a *Anchors, r *Report, rule string) {
	r.Begin(rule, "no package-level map/slice/pointer is stored into a Context or ExecutionContext map: what templates can reach is per execution (or immutable)", 1)
	n := 0
	for _, f := range p.inPkgFuncsSorted(a.ExecReach()) {
		for _, b := range f.Blocks {
			for _, in := range b.Instrs {
				mu, ok := in.(*ssa.MapUpdate)
				if !ok || !isContextMapType(a, mu.Map.Type()) {
					continue
				}
				v := stripConv(mu.Value)
				// a map that lives in the compiled tree (a field of a compiled type) is shared by every execution of the
				// template just like a package-level one: templates reach Context's methods ({{ pongo2.Update(d) }})
				{
					inner := v
					if mi, isMI := inner.(*ssa.MakeInterface); isMI {
						inner = stripConv(mi.X)
					}
					if u, isU := inner.(*ssa.UnOp); isU && u.Op == token.MUL {
						if fa, isFA := u.X.(*ssa.FieldAddr); isFA {
							if sn := structOf(fa.X.Type()); sn != nil && a.CompiledTypes[sn.Obj().Name()] {
								if _, isMap := u.Type().Underlying().(*types.Map); isMap {
									n++
									r.Bad(p.FuncName(f)+":ctx["+p.VN(mu.Key)+"]=compiled "+sn.Obj().Name()+"."+fieldName(fa.X.Type(), fa.Field), p.InstrPos(in), "the map kept in %s.%s (compiled tree) itself is put into a template context: templates can write it through the methods of its type and every execution of the template shares it", sn.Obj().Name(), fieldName(fa.X.Type(), fa.Field))
									continue
								}
							}
						}
					}
				}
				g := globalLoaded(v)
				if g == nil {
					continue
				}
				n++
				key := p.FuncName(f) + ":ctx[" + p.VN(mu.Key) + "]=global " + g.Name()
				T := g.Type().(*types.Pointer).Elem().Underlying()
				switch T.(type) {
				case *types.Map, *types.Slice, *types.Pointer, *types.Chan:
					r.Bad(key, p.InstrPos(in), "the package-level %s %s itself is put into a template context: templates can mutate it through the methods of its type (e.g. {{ pongo2.Update(d) }}) and every execution shares it", typeName(T), g.Name())
				default:
					r.OK(key, p.InstrPos(in), "a copy of an immutable package value")
				}
			}
		}
	}
	if n == 0 {
		r.OK("none", "-", "no package-level variable is stored into a context map")
	}
}

// ruleC04MapKeys: reflect's MapKeys returns the keys in Go's random map order. Wherever execution walks them, they
// went through a sort first — on every path, not only when the template asks for it.
func ruleC04MapKeys(p *Prog, a *Anchors, r *Report, rule string) {
	r.Begin(rule, "keys obtained from reflect.Value.MapKeys are sorted on every path before they are walked: iterating a map from the context gives the same order in every execution", 1)
	n := 0
	for _, f := range p.inPkgFuncsSorted(a.ExecReach()) {
		for _, b := range f.Blocks {
			for i, in := range b.Instrs {
				c, ok := in.(*ssa.Call)
				if !ok || c.Common().StaticCallee() == nil || p.extName(c.Common().StaticCallee()) != "(reflect.Value).MapKeys" {
					continue
				}
				n++
				key := p.FuncName(f) + ":MapKeys"
				derived := derivedSortable(p, c)
				isSort := func(x ssa.Instruction) bool { return sortsDerived(p, x, derived, 2) }
				// walks: IndexAddr / Range / len-bounded loops over a derived value
				bad := ""
				nWalks := 0
				for v := range derived {
					for _, u := range refs(v) {
						walk := false
						switch x := u.(type) {
						case *ssa.IndexAddr:
							walk = x.X == v
						case *ssa.Index:
							walk = x.X == v
						case *ssa.Range:
							walk = true
						}
						if !walk {
							continue
						}
						nWalks++
						if !MustPassFrom(b, i+1, u, isSort) {
							bad = p.InstrPos(u)
						}
					}
				}
				switch {
				case bad != "":
					r.Bad(key, p.InstrPos(in), "the keys are walked (at %s) on a path on which they were not sorted: the order of a loop over a map changes from execution to execution unless the template says `sorted`", bad)
				case nWalks == 0:
					r.Trivial(key, p.InstrPos(in), "the keys are not walked here")
				default:
					r.OK(key, p.InstrPos(in), "sorted on every path before being walked")
				}
			}
		}
	}
	if n == 0 {
		r.Trivial("none", "-", "no MapKeys call in execution-reachable code")
	}
}

// derivedSortable: values derived from a slice (conversions to a named sortable type, interfaces of it, sort.Reverse of it)
func derivedSortable(p *Prog, root ssa.Value) map[ssa.Value]bool {
	derived := map[ssa.Value]bool{root: true}
	changed := true
	for changed {
		changed = false
		for v := range derived {
			for _, u := range refs(v) {
				switch x := u.(type) {
				case *ssa.ChangeType, *ssa.Convert, *ssa.MakeInterface, *ssa.Phi:
					if !derived[x.(ssa.Value)] {
						derived[x.(ssa.Value)] = true
						changed = true
					}
				case *ssa.Call:
					// sort.Reverse(keys) wraps them
					if x.Common().StaticCallee() != nil && p.extName(x.Common().StaticCallee()) == "sort.Reverse" && !derived[x] {
						derived[x] = true
						changed = true
					}
				}
			}
		}
	}
	return derived
}

// sortsDerived: x sorts one of the derived values: a call of a sort function of the library on it, or of a package
// helper that sorts the parameter it arrives in on every path to its returns.
func sortsDerived(p *Prog, x ssa.Instruction, derived map[ssa.Value]bool, depth int) bool {
	sc, ok := x.(*ssa.Call)
	if !ok || sc.Common().StaticCallee() == nil {
		return false
	}
	callee := sc.Common().StaticCallee()
	switch p.extName(callee) {
	case "sort.Sort", "sort.Stable", "sort.Slice", "sort.SliceStable", "slices.SortFunc":
		return derived[sc.Common().Args[0]]
	}
	if depth == 0 || !p.InPkg(callee) || callee.Blocks == nil || sc.Common().IsInvoke() {
		return false
	}
	args := callArgs(sc.Common())
	for i, a := range args {
		if !derived[a] || i >= len(callee.Params) {
			continue
		}
		inner := derivedSortable(p, callee.Params[i])
		all := true
		rets := returnsOf(callee)
		for _, ret := range rets {
			if !MustPassFrom(callee.Blocks[0], 0, ret, func(y ssa.Instruction) bool { return sortsDerived(p, y, inner, depth-1) }) {
				all = false
			}
		}
		if all && len(rets) > 0 {
			return true
		}
	}
	return false
}
