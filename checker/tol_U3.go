package main

// tol_U3.go — shape tolerance for R-C06-COMMENT (`lexer:terminator-search`), R-C06-RAW (`emit:initial`) and
// R-C16-TOKPOS (`emit:advance-start`): the statement the rule looks for was wrapped into a small method of the lexer.
//   - `l.pos += 2; l.col += 2` became `l.advance(2)`: a call of a helper that adds its constant argument to pos is the skip;
//   - `&Token{…, Val: l.value(), …}` became `l.newToken(t, l.value())`: the construction is followed into the helper, its
//     parameters bound to the arguments of the call in emit;
//   - the three assignments that reset the start position became a call of the method that holds them (ignore()).

import (
	"go/token"
	"go/types"

	"golang.org/x/tools/go/ssa"
)

// u3IsLexerMethod: f is a method (with a body) of the package's lexer type.
func u3IsLexerMethod(p *Prog, f *ssa.Function) bool {
	if f == nil || f.Blocks == nil || !p.InPkg(f) || f.Signature.Recv() == nil || len(f.Params) == 0 {
		return false
	}
	n := structOf(f.Signature.Recv().Type())
	return n != nil && n.Obj().Name() == "lexer"
}

// u3OnReceiver: the FieldAddr `addr` addresses a field of f's own receiver.
func u3OnReceiver(f *ssa.Function, addr ssa.Value) bool {
	fa, ok := addr.(*ssa.FieldAddr)
	return ok && len(f.Params) > 0 && fa.X == ssa.Value(f.Params[0])
}

// u3SameLexer: the call passes, as receiver, the lexer its own function works on (that function's receiver, or the
// variable a closure of it captured).
func u3SameLexer(call ssa.CallInstruction) bool {
	args := callArgs(call.Common())
	if len(args) == 0 {
		return false
	}
	v := stripLoad(args[0])
	if u, ok := v.(*ssa.UnOp); ok && u.Op == token.MUL {
		if fv, isFV := u.X.(*ssa.FreeVar); isFV {
			v = fv // the captured variable (a cell) is loaded
		}
	}
	switch x := v.(type) {
	case *ssa.Parameter:
		return len(x.Parent().Params) > 0 && x == x.Parent().Params[0] && x.Parent().Signature.Recv() != nil
	case *ssa.FreeVar:
		T := x.Type()
		if pt, ok := T.(*types.Pointer); ok && structOf(T) == nil {
			T = pt.Elem()
		}
		n := structOf(T)
		return n != nil && n.Obj().Name() == "lexer"
	}
	return false
}

// u3PosSkipCall: `in` calls a small method of the lexer which, whenever it returns, has added its parameter to the
// receiver's pos exactly once (`l.pos += n`, no other store of pos, no call that could move pos back), and the
// argument passed for that parameter is a constant of at least `min`. Returns that constant.
func u3PosSkipCall(p *Prog, in ssa.Instruction, min int64) (int64, bool) {
	call, ok := in.(*ssa.Call)
	if !ok {
		return 0, false
	}
	h := call.Common().StaticCallee()
	if !u3IsLexerMethod(p, h) || h == in.Parent() || !u3SameLexer(call) {
		return 0, false
	}
	var add *ssa.Store
	for _, b := range h.Blocks {
		for _, x := range b.Instrs {
			switch x := x.(type) {
			case *ssa.Store:
				if isFieldAddrOf(x.Addr, "lexer", "pos") {
					if add != nil {
						return 0, false
					}
					add = x
				}
			case ssa.CallInstruction:
				if _, isBuiltin := x.Common().Value.(*ssa.Builtin); !isBuiltin {
					return 0, false // not a plain "add to the position" helper: what it calls may move pos as well
				}
			}
		}
	}
	if add == nil || !u3OnReceiver(h, add.Addr) || !t2AlwaysExecutes(h, add) {
		return 0, false
	}
	bo, ok := add.Val.(*ssa.BinOp)
	if !ok || bo.Op != token.ADD {
		return 0, false
	}
	isOwnPos := func(v ssa.Value) bool {
		ld, ok := v.(*ssa.UnOp)
		return ok && ld.Op == token.MUL && isFieldAddrOf(ld.X, "lexer", "pos") && u3OnReceiver(h, ld.X)
	}
	var pa *ssa.Parameter
	switch {
	case isOwnPos(bo.X):
		pa, _ = bo.Y.(*ssa.Parameter)
	case isOwnPos(bo.Y):
		pa, _ = bo.X.(*ssa.Parameter)
	}
	if pa == nil || pa.Parent() != h {
		return 0, false
	}
	idx := indexOfParam(h, pa)
	args := callArgs(call.Common())
	if idx <= 0 || idx >= len(args) {
		return 0, false
	}
	k, isC := constInt(args[idx])
	if !isC || k < min {
		return 0, false
	}
	return k, true
}

// u3TokenBuilds: the calls in f of package functions that construct a Token and return it (`l.newToken(t, val)`),
// each with the stores of Token.Val into the returned object. The value of such a store is given as seen from f:
// a parameter of the constructor is replaced by the argument of the call.
type u3ValStore struct {
	call  *ssa.Call  // the call in f
	st    *ssa.Store // the store of Token.Val inside the constructor
	val   ssa.Value  // the stored value, a parameter replaced by the argument of `call`
	bound bool       // val is such an argument (a value of f)
}

func u3TokenBuilds(p *Prog, f *ssa.Function) []u3ValStore {
	var out []u3ValStore
	for _, b := range f.Blocks {
		for _, in := range b.Instrs {
			call, ok := in.(*ssa.Call)
			if !ok {
				continue
			}
			h := call.Common().StaticCallee()
			if h == nil || h == f || h.Blocks == nil || !p.InPkg(h) || h.Signature.Results().Len() != 1 {
				continue
			}
			if n := structOf(h.Signature.Results().At(0).Type()); n == nil || n.Obj().Name() != "Token" {
				continue
			}
			returned := map[ssa.Value]bool{}
			for _, ret := range returnsOf(h) {
				var add func(v ssa.Value, d int)
				add = func(v ssa.Value, d int) {
					returned[v] = true
					if phi, isPhi := v.(*ssa.Phi); isPhi && d < 4 {
						for _, e := range phi.Edges {
							add(e, d+1)
						}
					}
				}
				add(res(ret, 0), 0)
			}
			args := callArgs(call.Common())
			for _, hb := range h.Blocks {
				for _, x := range hb.Instrs {
					st, ok := x.(*ssa.Store)
					if !ok || !isFieldAddrOf(st.Addr, "Token", "Val") || !returned[st.Addr.(*ssa.FieldAddr).X] {
						continue
					}
					vs := u3ValStore{call: call, st: st, val: st.Val}
					if pa, isPa := st.Val.(*ssa.Parameter); isPa && pa.Parent() == h {
						if idx := indexOfParam(h, pa); h.Params[idx] == pa && idx < len(args) {
							vs.val, vs.bound = args[idx], true
						}
					}
					out = append(out, vs)
				}
			}
		}
	}
	return out
}

// u3ParamIs: inside the constructor called by `call`, v is the parameter for which the call passes `want`.
func u3ParamIs(call *ssa.Call, v ssa.Value, want ssa.Value) bool {
	pa, ok := v.(*ssa.Parameter)
	h := call.Common().StaticCallee()
	if !ok || h == nil || pa.Parent() != h {
		return false
	}
	idx := indexOfParam(h, pa)
	args := callArgs(call.Common())
	return h.Params[idx] == pa && idx < len(args) && args[idx] == want
}

// u3ResetStores: the stores by which f resets start-position fields — its own, and those of the lexer methods it calls
// on the same lexer (`l.ignore()`), provided f performs that call whenever it returns and the method performs the
// store whenever it returns (`depth` levels of calls).
func u3ResetStores(p *Prog, f *ssa.Function, depth int) []*ssa.Store {
	var out []*ssa.Store
	for _, b := range f.Blocks {
		for _, in := range b.Instrs {
			if st, ok := in.(*ssa.Store); ok {
				out = append(out, st)
			}
		}
	}
	if depth <= 0 {
		return out
	}
	for _, b := range f.Blocks {
		for _, in := range b.Instrs {
			call, ok := in.(*ssa.Call)
			if !ok {
				continue
			}
			g := call.Common().StaticCallee()
			if !u3IsLexerMethod(p, g) || g == f || !u3SameLexer(call) || !t2AlwaysExecutes(f, call) {
				continue
			}
			for _, st := range u3ResetStores(p, g, depth-1) {
				if u3OnReceiver(st.Parent(), st.Addr) && t2AlwaysExecutes(st.Parent(), st) {
					out = append(out, st)
				}
			}
		}
	}
	return out
}
