package main

// C10 — shapes recognised through extracted helpers (R-C10-ROOT selects-root, R-C10-LAST executes-last / rest-for-super).

import (
	"go/token"

	"golang.org/x/tools/go/ssa"
)

// c10RootSel describes how a *Template value is selected, relative to a start value (the receiver of the context
// builder): the walk `for t.parent != nil { t = t.parent }`.
type c10RootSel struct {
	known     bool          // the shape was recognised at all
	self      bool          // the value is the start value itself
	hasRecv   bool          // the walk starts at the start value
	hasParent bool          // … follows .parent of the walked value
	exit      bool          // … and is left only when .parent == nil
	via       *ssa.Function // helper whose result the value is (nil: selected in place)
}

func (s c10RootSel) good() bool { return s.known && !s.self && s.hasRecv && s.hasParent && s.exit }

// c10SelectsRoot classifies v (used at instruction `at`, both in the same function) against the start value recv.
// Besides the in-place loop it follows the result of a package helper back to the helper's returns, with the helper's
// parameter that receives recv as the new start value; every return of the helper must have the shape.
func c10SelectsRoot(p *Prog, v ssa.Value, at ssa.Instruction, recv ssa.Value, depth int) c10RootSel {
	if v == recv {
		return c10RootSel{known: true, self: true}
	}
	if phi, ok := v.(*ssa.Phi); ok {
		s := c10RootSel{known: true}
		for _, e := range phi.Edges {
			if e == recv {
				s.hasRecv = true
			}
			if base, n, fld := fieldLoadBase(e); n != nil && n.Obj().Name() == "Template" && fld == "parent" && base == ssa.Value(phi) {
				s.hasParent = true
			}
		}
		// loop exit: parent == nil
		s.exit = Guarded(at, func(c ssa.Value, pol bool) bool {
			x, eq, isNil := condIsNilTest(c)
			if !isNil || eq != pol {
				return false
			}
			base, n, fld := fieldLoadBase(x)
			return n != nil && n.Obj().Name() == "Template" && fld == "parent" && base == ssa.Value(phi)
		})
		return s
	}
	g, call, idx := c10HelperResult(p, v)
	if g == nil || depth >= 3 {
		return c10RootSel{}
	}
	// the helper's parameter that stands for the start value
	var start *ssa.Parameter
	for i, arg := range call.Common().Args {
		if arg == recv && i < len(g.Params) {
			if start != nil {
				return c10RootSel{} // passed twice: which one is walked is not decided here
			}
			start = g.Params[i]
		}
	}
	rets := returnsOf(g)
	if start == nil || len(rets) == 0 {
		return c10RootSel{}
	}
	out := c10RootSel{known: true, hasRecv: true, hasParent: true, exit: true, via: g}
	for _, ret := range rets {
		if idx >= len(ret.Results) {
			return c10RootSel{}
		}
		s := c10SelectsRoot(p, res(ret, idx), ret, start, depth+1)
		if s.known && s.self {
			// `return t` is the root only where t.parent == nil is established
			if Guarded(ret, func(c ssa.Value, pol bool) bool {
				x, eq, isNil := condIsNilTest(c)
				if !isNil || eq != pol {
					return false
				}
				base, n, fld := fieldLoadBase(x)
				return n != nil && n.Obj().Name() == "Template" && fld == "parent" && base == ssa.Value(start)
			}) {
				continue
			}
		}
		out.known = out.known && s.known
		out.self = out.self || s.self
		out.hasRecv = out.hasRecv && s.hasRecv
		out.hasParent = out.hasParent && s.hasParent
		out.exit = out.exit && s.exit
	}
	return out
}

// c10HelperResult: v is result #idx of a static call to a package function with a body.
func c10HelperResult(p *Prog, v ssa.Value) (g *ssa.Function, call *ssa.Call, idx int) {
	switch x := v.(type) {
	case *ssa.Extract:
		call, _ = x.Tuple.(*ssa.Call)
		idx = x.Index
	case *ssa.Call:
		call = x
	}
	if call == nil {
		return nil, nil, 0
	}
	g = call.Common().StaticCallee()
	if g == nil || !p.InPkg(g) || g.Blocks == nil || idx >= g.Signature.Results().Len() {
		return nil, nil, 0
	}
	return g, call, idx
}

// c10Elem: v is a load of list[idx]; returns the element address.
func c10Elem(v ssa.Value) *ssa.IndexAddr {
	u, ok := v.(*ssa.UnOp)
	if !ok || u.Op != token.MUL {
		return nil
	}
	ia, _ := u.X.(*ssa.IndexAddr)
	return ia
}

const (
	c10LastUnknown = iota
	c10LastOK
	c10LastBad
)

// c10LastViaHelper: the executed wrapper w is the result of a package helper; on every return of the helper that
// result is element len-1 of one of the helper's own list parameters (the list handed in at the call). Returns the
// verdict, the helper and (for a wrong element) the index that is taken.
func c10LastViaHelper(p *Prog, w ssa.Value, depth int) (verdict int, g *ssa.Function, detail string) {
	g, _, idx := c10HelperResult(p, w)
	if g == nil || depth >= 3 {
		return c10LastUnknown, nil, ""
	}
	rets := returnsOf(g)
	if len(rets) == 0 {
		return c10LastUnknown, g, ""
	}
	verdict = c10LastOK
	for _, ret := range rets {
		if idx >= len(ret.Results) {
			return c10LastUnknown, g, ""
		}
		rv := res(ret, idx)
		ia := c10Elem(rv)
		if ia == nil {
			v2, _, d2 := c10LastViaHelper(p, rv, depth+1)
			switch v2 {
			case c10LastOK:
				continue
			case c10LastBad:
				return c10LastBad, g, d2
			}
			return c10LastUnknown, g, p.VN(rv)
		}
		if !c10IsListParam(g, ia.X) {
			// an element of some other list than the one the caller handed in
			return c10LastUnknown, g, p.VN(rv)
		}
		if !isLenMinusOne(p, ia.Index, ia.X) {
			return c10LastBad, g, p.VN(ia.Index)
		}
	}
	return verdict, g, ""
}

func c10IsListParam(g *ssa.Function, v ssa.Value) bool {
	for _, pa := range g.Params {
		if v == ssa.Value(pa) {
			n, ok := sliceElemNamed(pa.Type())
			return ok && n == "NodeWrapper"
		}
	}
	return false
}

// c10ListHelpers: the package functions (with a body) that f hands a list of definitions ([]*NodeWrapper) to,
// transitively: the places where a maintainer may have moved the index/slice expressions on that list.
func c10ListHelpers(p *Prog, f *ssa.Function) []*ssa.Function {
	seen := map[*ssa.Function]bool{f: true}
	var out []*ssa.Function
	work := []*ssa.Function{f}
	for i := 0; i < len(work) && i < 16; i++ {
		for _, b := range work[i].Blocks {
			for _, in := range b.Instrs {
				ci, ok := in.(ssa.CallInstruction)
				if !ok {
					continue
				}
				g := ci.Common().StaticCallee()
				if g == nil || seen[g] || !p.InPkg(g) || g.Blocks == nil {
					continue
				}
				takesList := false
				for _, arg := range ci.Common().Args {
					if n, isNamed := sliceElemNamed(arg.Type()); isNamed && n == "NodeWrapper" {
						takesList = true
					}
				}
				if !takesList {
					continue
				}
				seen[g] = true
				out = append(out, g)
				work = append(work, g)
			}
		}
	}
	return out
}
