package main

// types.go: engine T — the set of concrete types an interface-typed SSA value can hold
// (MakeInterface sources, through phis, local cells and in-package call results). ⊤ when unknown.

import (
	"go/types"
	"sort"

	"golang.org/x/tools/go/ssa"
)

type TypeSet struct {
	Top   bool
	Why   string                // for Top: what made it unknown
	Types map[string]types.Type // by type string
	Nil   bool
}

func (t *TypeSet) add(T types.Type) {
	if t.Types == nil {
		t.Types = map[string]types.Type{}
	}
	t.Types[types.TypeString(T, nil)] = T
}

func (t *TypeSet) union(o *TypeSet) {
	if o.Top && !t.Top {
		t.Top = true
		t.Why = o.Why
	}
	for _, T := range o.Types {
		t.add(T)
	}
	t.Nil = t.Nil || o.Nil
}

func (t *TypeSet) String() string {
	if t.Top {
		return "⊤(" + t.Why + ")"
	}
	var s []string
	for k := range t.Types {
		s = append(s, k)
	}
	sort.Strings(s)
	out := "{"
	for i, x := range s {
		if i > 0 {
			out += ", "
		}
		out += x
	}
	if t.Nil {
		if len(s) > 0 {
			out += ", "
		}
		out += "nil"
	}
	return out + "}"
}

// ConcreteTypes of interface value v.
func (p *Prog) ConcreteTypes(v ssa.Value) *TypeSet {
	return p.ctypes(v, map[ssa.Value]bool{}, map[*ssa.Function]bool{}, 0)
}

func (p *Prog) ctypes(v ssa.Value, seen map[ssa.Value]bool, fseen map[*ssa.Function]bool, depth int) *TypeSet {
	ts := &TypeSet{}
	if v == nil || seen[v] {
		return ts
	}
	if depth > 30 {
		ts.Top, ts.Why = true, "depth"
		return ts
	}
	seen[v] = true
	defer delete(seen, v)
	rec := func(x ssa.Value) *TypeSet { return p.ctypes(x, seen, fseen, depth+1) }
	switch x := v.(type) {
	case *ssa.Const:
		ts.Nil = true
	case *ssa.MakeInterface:
		ts.add(x.X.Type())
	case *ssa.ChangeInterface:
		ts.union(rec(x.X))
	case *ssa.ChangeType:
		ts.union(rec(x.X))
	case *ssa.Phi:
		for _, e := range x.Edges {
			ts.union(rec(e))
		}
	case *ssa.UnOp:
		// load of a local cell: union of stored values (includes closure stores)
		cells := p.cellsOf(x.X, 0)
		if len(cells) == 0 {
			ts.Top, ts.Why = true, "load of "+p.VN(x.X)
			break
		}
		for _, c := range cells {
			if p.cellEscapes(c) {
				ts.Top, ts.Why = true, "cell escapes"
			}
			if len(p.cellStores[c]) == 0 {
				ts.Nil = true
			}
			for _, s := range p.cellStores[c] {
				ts.union(rec(s))
			}
		}
	case *ssa.Extract:
		c, ok := x.Tuple.(*ssa.Call)
		if !ok {
			if ta, ok := x.Tuple.(*ssa.TypeAssert); ok && x.Index == 0 {
				if !types.IsInterface(ta.AssertedType) {
					ts.add(ta.AssertedType)
					break
				}
				ts.union(rec(ta.X))
				break
			}
			ts.Top, ts.Why = true, "extract of non-call"
			break
		}
		ts.union(p.callResultTypes(c, x.Index, seen, fseen, depth))
	case *ssa.Call:
		if pt := poolGetTypes(p, x); pt != nil {
			ts.union(pt)
			break
		}
		ts.union(p.callResultTypes(x, 0, seen, fseen, depth))
	case *ssa.TypeAssert:
		if !types.IsInterface(x.AssertedType) {
			ts.add(x.AssertedType)
		} else {
			ts.union(rec(x.X))
		}
	case *ssa.Parameter:
		ts.Top, ts.Why = true, "parameter "+x.Name()
	default:
		ts.Top, ts.Why = true, p.VN(v)
	}
	return ts
}

func (p *Prog) callResultTypes(c *ssa.Call, idx int, seen map[ssa.Value]bool, fseen map[*ssa.Function]bool, depth int) *TypeSet {
	ts := &TypeSet{}
	var callees []*ssa.Function
	if f := c.Common().StaticCallee(); f != nil {
		callees = []*ssa.Function{f}
	} else {
		callees = p.Callees(p.CG, c)
		if len(callees) == 0 || len(callees) > 60 {
			ts.Top, ts.Why = true, "dynamic call "+p.calleeName(c.Common())
			return ts
		}
	}
	for _, f := range callees {
		if !p.InPkg(f) || f.Blocks == nil {
			ts.Top, ts.Why = true, "result of "+p.extName(f)
			continue
		}
		if fseen[f] {
			continue // recursion adds nothing new
		}
		fseen[f] = true
		for _, ret := range returnsOf(f) {
			if idx >= len(ret.Results) {
				continue
			}
			rv := res(ret, idx)
			if !types.IsInterface(rv.Type()) {
				ts.add(rv.Type())
				continue
			}
			ts.union(p.ctypes(rv, seen, fseen, depth+1))
		}
		delete(fseen, f)
	}
	return ts
}
