package main

// R-C02-NODECODE: "escaped on output … also when filtered". The filter tag applies its chain to the body it has
// already rendered — text in which the context's characters stand as entities — and writes the result as it is (the
// known finding at tagFilterNode). A filter that turns entities back into characters therefore undoes the escaping
// after the fact: {% filter striptags %}<h1>{{ title }}</h1>{% endfilter %} prints `title` raw. No filter (and nothing a
// filter calls) decodes HTML entities.

import (
	"sort"
	"strings"

	"golang.org/x/tools/go/ssa"
)

func ruleC02NoDecode(p *Prog, a *Anchors, r *Report) {
	r.Begin("R-C02-NODECODE", "no registered filter decodes HTML entities (html.UnescapeString, a replacement table from entities to the characters < > & \" '): text that was escaped when it was rendered is not un-escaped by a filter chain applied to it", 0)
	var names []string
	for n := range a.FilterFuncs {
		names = append(names, n)
	}
	sort.Strings(names)
	bad := 0
	seen := map[ssa.Instruction]bool{}
	for _, name := range names {
		for _, g := range clusterOf(p, a.FilterFuncs[name], 3) {
			for _, b := range g.Blocks {
				for _, in := range b.Instrs {
					c, ok := in.(*ssa.Call)
					if !ok || seen[in] || c.Common().StaticCallee() == nil {
						continue
					}
					ext := p.extName(c.Common().StaticCallee())
					decodes := ext == "html.UnescapeString"
					if !decodes && (ext == "strings.Replace" || ext == "strings.ReplaceAll") && len(c.Common().Args) >= 3 {
						if old, isC := constString(c.Common().Args[1]); isC {
							if nw, isC2 := constString(c.Common().Args[2]); isC2 && strings.HasPrefix(old, "&") && strings.HasSuffix(old, ";") && strings.ContainsAny(nw, "<>&\"'") && len(nw) == 1 {
								decodes = true
							}
						}
					}
					if !decodes {
						continue
					}
					seen[in] = true
					bad++
					r.Bad("filter "+name+":decodes-entities", p.InstrPos(in), "the filter %s turns HTML entities back into characters (%s): applied by the filter tag to an already rendered, already escaped body it writes the context's `<` and `&` raw — escaping on output is undone after the fact", name, ext)
				}
			}
		}
	}
	if bad == 0 {
		r.OK("filters:no-decoding", "-", "%d registered filters and their helpers: none decodes HTML entities", len(names))
	}
}
