package main

// R-C04-CLOSE (acquire/release pairing). FSLoader and HttpFilesystemLoader hand out the opened file as the reader.
// Engine code that reads such a reader has to release it on every path after the read, or every load — a computed
// include loads on every execution — leaves a descriptor open until the collector runs: execution n fails with
// "too many open files" where execution 1 succeeded.

import (
	"go/types"

	"golang.org/x/tools/go/ssa"
)

// closesReader: the call c releases the reader v: v.(io.Closer).Close() in a helper that is handed v, or directly.
func closesReader(p *Prog, in ssa.Instruction, v ssa.Value, depth int) bool {
	isCloseOf := func(x ssa.Instruction, rd ssa.Value) bool {
		c, ok := x.(ssa.CallInstruction)
		if !ok || !c.Common().IsInvoke() || c.Common().Method.Name() != "Close" {
			return false
		}
		recv := c.Common().Value
		if ex, isEx := recv.(*ssa.Extract); isEx {
			recv = ex.Tuple
		}
		if ta, isTA := recv.(*ssa.TypeAssert); isTA {
			recv = ta.X
		}
		if ct, isCT := recv.(*ssa.ChangeInterface); isCT {
			recv = ct.X
		}
		return recv == rd || p.VN(recv) == p.VN(rd)
	}
	if isCloseOf(in, v) {
		return true
	}
	c, ok := in.(ssa.CallInstruction)
	if !ok || depth > 2 {
		return false
	}
	callee := c.Common().StaticCallee()
	if callee == nil || !p.InPkg(callee) || callee.Blocks == nil {
		return false
	}
	for i, arg := range callArgs(c.Common()) {
		if arg != v && p.VN(arg) != p.VN(v) {
			continue
		}
		if i >= len(callee.Params) {
			continue
		}
		pa := callee.Params[i]
		for _, b := range callee.Blocks {
			for _, x := range b.Instrs {
				if closesReader(p, x, pa, depth+1) {
					return true
				}
			}
		}
	}
	return false
}

func ruleC04Close(p *Prog, a *Anchors, r *Report) {
	r.Begin("R-C04-CLOSE", "a reader obtained from a template loader and read by engine code (io.ReadAll) is released on every path after the read (Close of the reader when it is an io.Closer): loading does not leak descriptors from one execution to the next", 1)
	n := 0
	for _, f := range p.inPkgFuncsSorted(p.allFuncSet()) {
		if implementsLoader(p, a, f) {
			continue
		}
		k := 0
		for _, b := range f.Blocks {
			for _, in := range b.Instrs {
				c, ok := in.(*ssa.Call)
				if !ok || c.Common().StaticCallee() == nil {
					continue
				}
				name := p.extName(c.Common().StaticCallee())
				if name != "io.ReadAll" && name != "io/ioutil.ReadAll" {
					continue
				}
				rd := c.Common().Args[0]
				// a reader that came out of a package call (the set's resolver / a loader's Get), not one built here
				src := rd
				if ex, isEx := src.(*ssa.Extract); isEx {
					src = ex.Tuple
				}
				if phi, isPhi := src.(*ssa.Phi); isPhi && len(phi.Edges) > 0 {
					for _, e := range phi.Edges {
						if ex, isEx := e.(*ssa.Extract); isEx {
							src = ex.Tuple
						}
					}
				}
				// or the reader is a parameter of a package helper (readAndClose) whose callers pass such a reader
				var sites []actualSite
				if sc, isCall := src.(*ssa.Call); !isCall {
					if sites = u6LoaderReaderSites(p, rd, 0); len(sites) == 0 {
						continue
					}
				} else if callee := sc.Common().StaticCallee(); callee != nil && !p.InPkg(callee) {
					continue
				}
				if it, isI := rd.Type().Underlying().(*types.Interface); !isI || it.NumMethods() == 0 {
					continue
				}
				n++
				k++
				key := p.FuncName(f) + ":reader"
				if k > 1 {
					key += "#" + itoa(int64(k))
				}
				ok2 := true
				reach := ReachableBlocks(b)
				for _, ret := range returnsOf(f) {
					if !reach[ret.Block()] {
						continue
					}
					if !MustPassFrom(b, indexIn(in), ret, func(x ssa.Instruction) bool { return closesReader(p, x, rd, 0) }) {
						ok2 = false
					}
				}
				// or deferred
				for _, bb := range f.Blocks {
					for _, x := range bb.Instrs {
						if d, isD := x.(*ssa.Defer); isD && closesReader(p, d, rd, 0) {
							ok2 = true
						}
					}
				}
				if !ok2 && len(sites) > 0 {
					// the helper leaves the release to its callers: each of them has to do it behind the call
					ok2 = true
					for _, s := range sites {
						if !u6ReleasedAfter(p, s.site, s.val) {
							ok2 = false
						}
					}
				}
				if ok2 {
					r.OK(key, p.InstrPos(in), "the reader is released on every path after it was read")
				} else {
					r.Bad(key, p.InstrPos(in), "the reader the loader handed out is read and dropped: when it is an opened file (FSLoader, HttpFilesystemLoader) every load leaves a descriptor open until the collector runs — a computed include loads on every execution, so execution n fails where execution 1 succeeded")
				}
			}
		}
	}
	if n == 0 {
		r.Trivial("none", "-", "engine code outside the loaders reads no reader obtained from a loader")
	}
}
