package main

// C12 — scoping and caller data: R-C12-CALLER, CHILD, BODY, VALID, ORDER.

import (
	"go/constant"
	"go/token"
	"go/types"
	"regexp"
	"strings"

	"golang.org/x/tools/go/ssa"
)

func init() { register("C12", checkC12) }

func checkC12(p *Prog, r *Report) {
	a := ResolveAnchors(p)
	if !anchorCheck(a, r) {
		return
	}
	ruleC12Caller(p, a, r)
	ruleC12Methods(p, a, r)
	ruleC12StateScope(p, a, r)
	ruleNoReflectSet(p, r, "R-C12-NOSET")
	ruleC12Child(p, a, r)
	ruleC12Body(p, a, r)
	ruleArgScope(p, a, r, "R-C12-ARGSCOPE")
	ruleC12Valid(p, a, r)
	ruleC12Identifier(p, a, r)
	ruleC12ForBind(p, a, r)
	ruleCtxMergeOrder(p, a, r, "R-C12-ORDER")
	r.Begin("R-C12-MACRO-ANCHORS", "macro body executor found by role", 1)
	if ma := resolveMacroAnchors(p, a, r); ma != nil {
		r.Trivial("anchors", "-", "%d macro body executor(s)", len(ma.bodies))
		ruleMacroBindAll(p, ma, r, "R-C12-MACROBIND")
	}
}

func isContextMapType(a *Anchors, T types.Type) bool {
	return types.Identical(T, a.Context)
}

// callerOwned: the root denotes caller-owned data: the Context parameter of an entry, ExecutionContext.Public,
// TemplateSet.Globals, or a package-level Context.
func callerOwned(a *Anchors, rt Root, entries map[*ssa.Function]bool) (bool, string) {
	for _, ow := range rt.Owners {
		if ow.Type == "ExecutionContext" && ow.Field == "Public" {
			return true, "ExecutionContext.Public (the caller's context, read-only by contract)"
		}
		if ow.Type == "TemplateSet" && ow.Field == "Globals" {
			return true, "TemplateSet.Globals"
		}
	}
	switch rt.Kind {
	case RParam:
		if isContextMapType(a, rt.Typ) {
			return true, "a Context parameter (" + rt.Fn.Name() + ")"
		}
	case RGlobal:
		return true, "package variable " + rt.Name
	}
	return false, ""
}

func ruleC12Caller(p *Prog, a *Anchors, r *Report) {
	r.Begin("R-C12-CALLER", "no map update/delete reachable from execution targets the caller's Context, ExecutionContext.Public, TemplateSet.Globals or a package-level Context", 10)
	es := entrySet(a)
	for _, je := range p.JudgeEffects(a.ExecReach(), es) {
		e := je.E
		switch e.Kind {
		case "mapupdate", "delete", "clear":
		default:
			continue
		}
		key := p.effectKey(e)
		pos := p.InstrPos(e.Instr)
		bad := ""
		all := ""
		for _, c := range je.Contexts {
			for _, rt := range c.Roots {
				if is, what := callerOwned(a, rt, es); is {
					bad = what + " via " + rt.String() + " (judged in " + c.Fn.Name() + ")"
				}
			}
			if all == "" {
				all = rootsString(c.Roots)
			}
		}
		if bad != "" {
			r.Bad(key, pos, "%s writes caller-owned data: %s", e.Desc, bad)
		} else {
			r.OK(key, pos, "%s: map is per-execution or fresh (%s)", e.Desc, all)
		}
	}
}

func ruleC12Child(p *Prog, a *Anchors, r *Report) {
	r.Begin("R-C12-CHILD", "every ExecutionContext gets a freshly made Private map; Public is only the merged copy or the parent's Public", 4)
	es := entrySet(a)
	p.EachInstr(func(f *ssa.Function, in ssa.Instruction) {
		st, ok := in.(*ssa.Store)
		if !ok {
			return
		}
		for _, fld := range []string{"Private", "Public", "Shared"} {
			if !isFieldAddrOf(st.Addr, "ExecutionContext", fld) {
				continue
			}
			key := p.FuncName(f) + ":" + fld
			pos := p.InstrPos(in)
			rs := p.RootsUp(st.Val, es, 4)
			switch fld {
			case "Private":
				if allFresh(rs) {
					r.OK(key, pos, "Private is a freshly made map (%s)", rootsString(rs))
				} else {
					r.Bad(key, pos, "a new ExecutionContext shares its Private map with %s: bindings made in the construct leak out of it (and into the parent)", rootsString(rs))
				}
			case "Public", "Shared":
				ok := true
				why := ""
				for _, rt := range rs {
					if rt.Kind == RFresh || rt.Kind == RNil {
						continue
					}
					if len(rt.Owners) > 0 && rt.Owners[len(rt.Owners)-1].Type == "ExecutionContext" && rt.Owners[len(rt.Owners)-1].Field == fld {
						continue // copied from the parent
					}
					ok = false
					why = rt.String()
				}
				if ok {
					r.OK(key, pos, "%s is the per-execution merged map or the parent's %s (%s)", fld, fld, rootsString(rs))
				} else {
					r.Bad(key, pos, "%s of an execution context aliases %s: the engine would hand caller-owned or shared data to code that may write it", fld, why)
				}
			}
		}
	})
}

// ruleC12Body: a function that binds a template-chosen name into some ctx.Private and executes a body must do
// both on a child context created for the construct (NewChildExecutionContext result), not on the incoming one.
var scopingConstructList = []string{"(*tagForNode).Execute", "(*tagWithNode).Execute", "(*tagMacroNode).call", "(tagBlockInformation).Super"}
var scopingConstructs = map[string]bool{"(*tagForNode).Execute": true, "(*tagWithNode).Execute": true, "(*tagMacroNode).call": true, "(tagBlockInformation).Super": true}

func ruleC12Body(p *Prog, a *Anchors, r *Report) {
	r.Begin("R-C12-BODY", "constructs that bind names and run a body (for, with, macro call, block.Super) do so in a fresh child context; the frozen four must be among them", 4)
	newChild := p.Func("NewChildExecutionContext")
	if newChild == nil {
		r.Unk("anchor", "-", "anchor unresolved: NewChildExecutionContext")
		return
	}
	found := map[string]bool{}
	for _, f := range p.inPkgFuncsSorted(a.ExecReach()) {
		if f.Parent() != nil {
			continue
		}
		fs := withClosures(f)
		// body executions: calls of (*NodeWrapper).Execute / INode.Execute with an *ExecutionContext argument
		type bodyCall struct {
			in  ssa.Instruction
			ctx ssa.Value
		}
		var bodies []bodyCall
		var binds []*ssa.MapUpdate
		usesChild := false
		for _, g := range fs {
			for _, b := range g.Blocks {
				for _, in := range b.Instrs {
					switch in := in.(type) {
					case ssa.CallInstruction:
						cc := in.Common()
						if cc.StaticCallee() == newChild {
							usesChild = true
						}
						isExec := (cc.IsInvoke() && cc.Method.Name() == "Execute") || (cc.StaticCallee() != nil && cc.StaticCallee().Name() == "Execute" && p.InPkg(cc.StaticCallee()))
						if !isExec {
							continue
						}
						for _, arg := range cc.Args {
							if types.Identical(arg.Type(), types.NewPointer(a.ExecCtx)) {
								bodies = append(bodies, bodyCall{in, arg})
							}
						}
					case *ssa.MapUpdate:
						if loadsField(in.Map, "ExecutionContext", "Private") {
							binds = append(binds, in)
						}
					}
				}
			}
		}
		name := p.FuncName(f)
		if len(bodies) == 0 || len(binds) == 0 {
			continue
		}
		// ctx used for the body
		for _, bc := range bodies {
			rs := p.Roots(bc.ctx)
			key := name + ":body-ctx"
			if allFresh(rs) {
				found[name] = true
				r.OK(key, p.InstrPos(bc.in), "body runs in a child context created here (%s)", rootsString(rs))
			} else {
				if scopingConstructs[name] {
					r.Bad(name+":every-body", p.InstrPos(bc.in), "%s runs one of its bodies in the enclosing context instead of its child context: names set inside that part of the construct (e.g. in the `empty` branch of a for) survive the construct and overwrite outer bindings", name)
				}
				// body runs in the incoming context: then no template-chosen name may be bound into it here
				for _, mu := range binds {
					base, _, _ := fieldLoadBase(mu.Map)
					same := p.VN(base) == p.VN(bc.ctx) || !allFresh(p.Roots(base))
					if !same {
						continue
					}
					if _, isConst := constString(mu.Key); isConst {
						k, _ := constString(mu.Key)
						r.Assume(name+":bind:"+k, p.InstrPos(mu), "engine-internal name %q is bound in the incoming context before the body runs (not one of the scoping constructs of the property)", k)
					} else {
						r.Bad(name+":bind", p.InstrPos(mu), "a template-chosen name is bound into the incoming context and the body is executed with that same context: the binding stays visible after the construct ends / overwrites outer bindings")
					}
				}
			}
		}
		_ = usesChild
	}
	for _, want := range scopingConstructList {
		if p.Func(want) == nil {
			r.Unk(want, "-", "anchor unresolved: scoping construct %s", want)
			continue
		}
		if found[want] {
			r.OK(want+":scoped", p.Pos(p.Func(want).Pos()), "binds and runs its body in a child context")
		} else {
			r.Bad(want+":scoped", p.Pos(p.Func(want).Pos()), "%s no longer runs its body in a context created by NewChildExecutionContext", want)
		}
	}
}

// ruleArgScope: the arguments of a scoping construct (with-pairs, loop sequence, macro defaults, Super) are evaluated
// in the enclosing context, never in the child context the construct creates for its body.
func ruleArgScope(p *Prog, a *Anchors, r *Report, rule string) {
	r.Begin(rule, "argument expressions of for/with/macro call/block.Super (and any filter arguments inside them) are evaluated in the enclosing execution context, not in the child context the construct creates", 2)
	ctxPtr := types.NewPointer(a.ExecCtx)
	evalCtxArgs := func(g *ssa.Function) (out []*ssa.Call) {
		for _, b := range g.Blocks {
			for _, in := range b.Instrs {
				c, ok := in.(*ssa.Call)
				if !ok || !c.Common().IsInvoke() || c.Common().Method.Name() != "Evaluate" || len(c.Common().Args) != 1 {
					continue
				}
				if types.Identical(c.Common().Args[0].Type(), ctxPtr) {
					out = append(out, c)
				}
			}
		}
		return
	}
	for _, name := range scopingConstructList {
		f := p.Func(name)
		if f == nil {
			r.Unk(name, "-", "anchor unresolved: scoping construct %s", name)
			continue
		}
		key := name + ":arg-scope"
		judge := func(at ssa.Instruction, ctx ssa.Value, via string) {
			if rs := p.Roots(ctx); allFresh(rs) {
				r.Bad(key, p.InstrPos(at), "an argument expression of the construct is evaluated%s in the child context the construct creates (%s): it sees the construct's own bindings instead of the enclosing scope (with x=1 y=v|add:x would use the new x, in map order; an inner loop's sequence would see the inner forloop)", via, rootsString(rs))
			} else {
				r.OK(key, p.InstrPos(at), "argument expression evaluated%s in the enclosing context", via)
			}
		}
		for _, g := range withClosures(f) {
			for _, c := range evalCtxArgs(g) {
				judge(c, c.Common().Args[0], "")
			}
			// helpers of the construct that evaluate with a context they are handed: judged by what is handed
			for _, b := range g.Blocks {
				for _, in := range b.Instrs {
					ci, ok := in.(ssa.CallInstruction)
					if !ok {
						continue
					}
					h := ci.Common().StaticCallee()
					if h == nil || !p.InPkg(h) || h.Blocks == nil || h.Name() == "Execute" || h == f {
						continue
					}
					for _, c := range evalCtxArgs(h) {
						pa, isParam := c.Common().Args[0].(*ssa.Parameter)
						if !isParam {
							continue
						}
						args := callArgs(ci.Common())
						if idx := indexOfParam(h, pa); idx >= 0 && idx < len(args) {
							judge(in, args[idx], " (in "+h.Name()+")")
						}
					}
				}
			}
		}
	}
}

func ruleC12Valid(p *Prog, a *Anchors, r *Report) {
	r.Begin("R-C12-VALID", "context keys are validated (identifier syntax, macro clash) before the execution context is created; failures return an error", 3)
	check := p.Method("Context", "checkForValidIdentifiers")
	newCtx := p.Func("newExecutionContext")
	if check == nil || newCtx == nil {
		r.Unk("anchor", "-", "anchor unresolved: checkForValidIdentifiers / newExecutionContext")
		return
	}
	// the function that builds the execution context
	var builder *ssa.Function
	for _, f := range p.Funcs {
		if len(callsTo(f, newCtx)) > 0 && a.ExecReach()[f] {
			builder = f
		}
	}
	if builder == nil {
		r.Unk("builder", "-", "no execution-reachable caller of newExecutionContext")
		return
	}
	ctxParam := paramOfType(builder, a.Context)
	if ctxParam == nil {
		r.Unk("builder", p.Pos(builder.Pos()), "%s has no Context parameter", p.FuncName(builder))
		return
	}
	checks := callsTo(builder, check)
	name := p.FuncName(builder)
	for _, site := range callsTo(builder, newCtx) {
		// skip edges that say "no caller context" or "merged map empty"
		skip := func(c ssa.Value, pol bool) bool {
			// (a nil caller context is no excuse: the set's Globals have been merged by then and need the same checks)
			if b, ok := c.(*ssa.BinOp); ok {
				// len(m) > 0 false / len(m) == 0 true
				if isLenCall(b.X) {
					if k, okc := constInt(b.Y); okc && k == 0 {
						if (b.Op == token.GTR && !pol) || (b.Op == token.EQL && pol) || (b.Op == token.NEQ && !pol) {
							return true
						}
					}
				}
			}
			return false
		}
		// every remaining path passes the validation call
		ok := mustPassWithSkippedEdges(site.(ssa.Instruction), skip, func(in ssa.Instruction) bool {
			for _, c := range checks {
				if c == in {
					return true
				}
			}
			return false
		})
		if len(checks) > 0 && ok {
			r.OK(name+":validate-before-run", p.InstrPos(site.(ssa.Instruction)), "every path with a non-empty merged context (caller context and Globals) passes checkForValidIdentifiers before the execution context is built")
		} else {
			r.Bad(name+":validate-before-run", p.InstrPos(site.(ssa.Instruction)), "the execution context can be built from a non-empty merged context without checkForValidIdentifiers (e.g. when the caller passes a nil Context but the set has Globals): invalid keys are accepted")
		}
		// its error edge returns
		for _, c := range checks {
			cv := c.(*ssa.Call)
			g := GuardedFrom(cv.Block(), site.(ssa.Instruction).Block(), func(cond ssa.Value, pol bool) bool {
				x, eq, isNil := condIsNilTest(cond)
				return isNil && x == ssa.Value(cv) && eq == pol
			})
			if g {
				r.OK(name+":validate-error-returns", p.InstrPos(cv), "execution proceeds only on the err == nil edge of the validation")
			} else {
				r.Bad(name+":validate-error-returns", p.InstrPos(cv), "the result of checkForValidIdentifiers does not stop execution")
			}
		}
		// macro clash: a comma-ok lookup in Template.exportedMacros whose hit edge returns a non-nil error, in the
		// builder itself or in a helper it calls (whose error result must then stop the builder)
		clash := false
		own := false
		cands := []*ssa.Function{builder}
		for _, b := range builder.Blocks {
			for _, in := range b.Instrs {
				if ci, ok := in.(ssa.CallInstruction); ok {
					if cal := ci.Common().StaticCallee(); cal != nil && p.InPkg(cal) && cal.Blocks != nil && errorResultIndex(cal) >= 0 {
						cands = append(cands, cal)
					}
				}
			}
		}
		for _, fn := range cands {
			for _, b := range fn.Blocks {
				for _, in := range b.Instrs {
					lk, ok := in.(*ssa.Lookup)
					if !ok || !lk.CommaOk || !loadsField(lk.X, "Template", "exportedMacros") {
						continue
					}
					for _, u := range refs(lk) {
						ex, ok := u.(*ssa.Extract)
						if !ok || ex.Index != 1 {
							continue
						}
						for _, uu := range refs(ex) {
							iff, ok := uu.(*ssa.If)
							if !ok || !errorReturnsOnly(fn, iff.Block().Succs[0]) {
								continue
							}
							if ownTableOf(fn, builder, lk.X) {
								own = true
							}
							if fn == builder {
								clash = true
								continue
							}
							// helper: its result is tested by the builder before the context is created
							for _, hc := range callsTo(builder, fn) {
								hv, isV := hc.(*ssa.Call)
								if !isV {
									continue
								}
								if GuardedFrom(hv.Block(), site.(ssa.Instruction).Block(), func(cond ssa.Value, pol bool) bool {
									x, eq, isNil := condIsNilTest(cond)
									if !isNil || eq != pol {
										return false
									}
									if x == ssa.Value(hv) {
										return true
									}
									e2, isEx := x.(*ssa.Extract)
									return isEx && e2.Tuple == ssa.Value(hv)
								}) {
									clash = true
								}
							}
						}
					}
				}
			}
		}
		if clash {
			r.OK(name+":macro-clash", p.Pos(builder.Pos()), "a context key naming an exported macro leads to an error return")
			if own {
				r.OK(name+":macro-clash:own-table", p.Pos(builder.Pos()), "the macros compared are (at least) those exported by the template being executed")
			} else {
				r.Bad(name+":macro-clash:own-table", p.Pos(builder.Pos()), "the clash test never looks at the macros exported by the template Execute was called on (only at another template's table, e.g. the root ancestor's): a template that extends another one and exports a macro accepts a context key of that name")
			}
		} else {
			r.Bad(name+":macro-clash", p.Pos(builder.Pos()), "no check that context keys do not clash with exported macros (lookup in Template.exportedMacros whose hit edge returns an error)")
		}
	}
	// the validator itself: the regexp mismatch edge returns a non-nil error
	okv := false
	for _, b := range check.Blocks {
		for _, in := range b.Instrs {
			c, ok := in.(*ssa.Call)
			if !ok || c.Common().StaticCallee() == nil || c.Common().StaticCallee().Name() != "MatchString" {
				continue
			}
			for _, u := range refs(c) {
				iff, ok := u.(*ssa.If)
				if !ok {
					// negated
					if un, ok := u.(*ssa.UnOp); ok && un.Op == token.NOT {
						for _, uu := range refs(un) {
							if i2, ok := uu.(*ssa.If); ok && errorReturnsOnly(check, i2.Block().Succs[0]) {
								okv = true
							}
						}
					}
					continue
				}
				if errorReturnsOnly(check, iff.Block().Succs[1]) {
					okv = true
				}
			}
		}
	}
	if !okv {
		// the test sits in a predicate of the cluster (`if isValidContextKey(k) { continue }; return err`): the edge
		// taken when the predicate reports the mismatch
		okv = mismatchEdgeIsError(p, check, func(c *ssa.Call) bool {
			return c.Common().StaticCallee() != nil && c.Common().StaticCallee().Name() == "MatchString"
		})
	}
	if okv {
		r.OK(p.FuncName(check)+":mismatch-is-error", p.Pos(check.Pos()), "a key that does not match the identifier pattern yields a non-nil error")
	} else {
		r.Bad(p.FuncName(check)+":mismatch-is-error", p.Pos(check.Pos()), "the identifier validator does not return an error on the mismatch edge")
	}
}

// ruleC12Identifier: the validation pattern accepts exactly what the lexer emits as an identifier. Both are constants of
// the source (the regular expression, the two character-class strings, the keyword list); the pattern is evaluated on
// every string up to length 3 over {a, Z, _, 0, 9, -, space, é} and on every keyword.
func ruleC12Identifier(p *Prog, a *Anchors, r *Report) {
	r.Begin("R-C12-IDENT", "the context-key validation accepts exactly the lexer's identifiers: letters, digits and '_' with at least one non-digit, and no keyword", 2)
	check := p.Method("Context", "checkForValidIdentifiers")
	if check == nil {
		r.Unk("anchor", "-", "anchor unresolved: checkForValidIdentifiers")
		return
	}
	// the pattern: the regexp global matched in the check function
	pat := ""
	for _, b := range check.Blocks {
		for _, in := range b.Instrs {
			c, ok := in.(*ssa.Call)
			if !ok || c.Common().StaticCallee() == nil || p.extName(c.Common().StaticCallee()) != "(*regexp.Regexp).MatchString" {
				continue
			}
			if u, ok := c.Common().Args[0].(*ssa.UnOp); ok {
				if g, ok := u.X.(*ssa.Global); ok {
					if ic := globalInitCall(p, g); ic != nil {
						pat, _ = constString(ic.Common().Args[0])
					}
				}
			}
		}
	}
	// … or the regexp global matched in a bool predicate the check calls with the key (isValidContextKey)
	var predicates []*ssa.Function
	if pat == "" {
		pat, predicates = predicatePattern(p, check)
	}
	if pat == "" {
		r.Unk("pattern", p.Pos(check.Pos()), "the validation does not match a constant regular expression")
		return
	}
	re, err := regexp.Compile(pat)
	if err != nil {
		r.Bad("pattern", p.Pos(check.Pos()), "pattern %q does not compile", pat)
		return
	}
	// the lexer's tables
	constOf := func(name string) string {
		if c, ok := p.Pkg.Types.Scope().Lookup(name).(*types.Const); ok && c.Val().Kind() == constant.String {
			return constant.StringVal(c.Val())
		}
		// a package variable assigned exactly once, a string constant
		out, n := "", 0
		if g, ok := p.SPkg.Members[name].(*ssa.Global); ok {
			p.EachInstr(func(f *ssa.Function, in ssa.Instruction) {
				if st, isSt := in.(*ssa.Store); isSt && st.Addr == ssa.Value(g) {
					n++
					out, _ = constString(st.Val)
				}
			})
		}
		if n != 1 {
			return ""
		}
		return out
	}
	letters, withDigits := constOf("tokenIdentifierChars"), constOf("tokenIdentifierCharsWithDigits")
	var keywords []string
	if g, ok := p.SPkg.Members["TokenKeywords"].(*ssa.Global); ok {
		p.EachInstr(func(f *ssa.Function, in ssa.Instruction) {
			if st, isSt := in.(*ssa.Store); isSt && st.Addr == ssa.Value(g) {
				if ks, okk := constStringSlice(st.Val); okk {
					keywords = ks
				}
			}
		})
	}
	if letters == "" || withDigits == "" || len(keywords) == 0 {
		r.Unk("lexer-tables", "-", "anchor unresolved: tokenIdentifierChars / tokenIdentifierCharsWithDigits / TokenKeywords (letters %d, with digits %d, keywords %d)", len(letters), len(withDigits), len(keywords))
		return
	}
	// does the check also consult the keyword list?
	usesKeywords := false
	cluster := clusterOf(p, check, 1)
	for _, h := range predicates {
		cluster = append(cluster, clusterOf(p, h, 1)...)
	}
	for _, f := range cluster {
		for _, b := range f.Blocks {
			for _, in := range b.Instrs {
				if u, ok := in.(*ssa.UnOp); ok {
					if g, ok := u.X.(*ssa.Global); ok && g.Name() == "TokenKeywords" {
						usesKeywords = true
					}
				}
			}
		}
	}
	isIdent := func(s string) bool {
		if s == "" {
			return false
		}
		nonDigit := false
		for _, ch := range s {
			if !strings.ContainsRune(withDigits, ch) {
				return false
			}
			if strings.ContainsRune(letters, ch) {
				nonDigit = true
			}
		}
		if !nonDigit {
			return false
		}
		for _, kw := range keywords {
			if kw == s {
				return false
			}
		}
		return true
	}
	accepts := func(s string) bool {
		if !re.MatchString(s) {
			return false
		}
		if usesKeywords {
			for _, kw := range keywords {
				if kw == s {
					return false
				}
			}
		}
		return true
	}
	alphabet := []string{"a", "Z", "_", "0", "9", "-", " ", "é"}
	var cands []string
	cands = append(cands, "")
	var gen func(prefix string, left int)
	gen = func(prefix string, left int) {
		if left == 0 {
			return
		}
		for _, ch := range alphabet {
			cands = append(cands, prefix+ch)
			gen(prefix+ch, left-1)
		}
	}
	gen("", 3)
	cands = append(cands, keywords...)
	for _, s := range cands {
		if accepts(s) != isIdent(s) {
			r.Bad("agreement", p.Pos(check.Pos()), "context key %q: the validation (pattern %q, keyword list consulted: %v) says %v, the lexer's identifier rule says %v — a key the validation accepts but no template can name, or the reverse", s, pat, usesKeywords, accepts(s), isIdent(s))
			return
		}
	}
	r.OK("agreement", p.Pos(check.Pos()), "pattern %q (+ keyword list) agrees with the lexer's identifier rule on %d candidate keys", pat, len(cands))
	r.OK("tables", "-", "lexer tables read from the source: %d letters, %d identifier characters, %d keywords", len(letters), len(withDigits), len(keywords))
}

func isLenCall(v ssa.Value) bool {
	c, ok := v.(*ssa.Call)
	if !ok {
		return false
	}
	b, ok := c.Common().Value.(*ssa.Builtin)
	return ok && b.Name() == "len"
}

// mustPassWithSkippedEdges: every entry→target path that takes none of the `skip` edges passes a barrier.
func mustPassWithSkippedEdges(target ssa.Instruction, skip EdgePred, barrier func(ssa.Instruction) bool) bool {
	f := target.Parent()
	tb, ti := target.Block(), instrIndex(target)
	seen := map[*ssa.BasicBlock]bool{f.Blocks[0]: true}
	work := []*ssa.BasicBlock{f.Blocks[0]}
	for len(work) > 0 {
		b := work[len(work)-1]
		work = work[:len(work)-1]
		blocked := false
		for i, in := range b.Instrs {
			if b == tb && i == ti {
				return false
			}
			if barrier(in) {
				blocked = true
				break
			}
		}
		if blocked {
			continue
		}
		for i, s := range b.Succs {
			if edgeEstablishes(b, i, skip) {
				continue
			}
			if !seen[s] {
				seen[s] = true
				work = append(work, s)
			}
		}
	}
	return true
}

// ruleCtxMergeOrder: globals are merged before the caller's context so the context overrides globals;
// the first name part is looked up in Private before Public.
func ruleCtxMergeOrder(p *Prog, a *Anchors, r *Report, rule string) {
	r.Begin(rule, "lookup order: tag-set names (Private) shadow context keys (Public), which override the set's Globals (merge order)", 2)
	update := p.Method("Context", "Update")
	if update == nil {
		r.Unk("anchor", "-", "anchor unresolved: (Context).Update")
		return
	}
	n := 0
	for _, f := range p.inPkgFuncsSorted(a.ExecReach()) {
		var gl, cx ssa.CallInstruction
		ctxParam := paramOfType(f, a.Context)
		for _, c := range callsTo(f, update) {
			args := c.Common().Args
			if len(args) < 2 {
				continue
			}
			if loadsField(args[1], "TemplateSet", "Globals") {
				gl = c
			}
			if ctxParam != nil && args[1] == ssa.Value(ctxParam) {
				cx = c
			}
		}
		if gl == nil && cx == nil {
			continue
		}
		n++
		name := p.FuncName(f)
		if gl == nil || cx == nil {
			r.Bad(name+":merge", p.Pos(f.Pos()), "the per-execution context merges only one of Globals / caller context (globals must be visible in every template and be overridden by context entries)")
			continue
		}
		same := p.VN(gl.Common().Args[0]) == p.VN(cx.Common().Args[0])
		if same && Dominates(gl.(ssa.Instruction), cx.(ssa.Instruction)) {
			r.OK(name+":merge", p.InstrPos(cx.(ssa.Instruction)), "Update(Globals) precedes Update(context) on the same fresh map")
		} else {
			r.Bad(name+":merge", p.InstrPos(cx.(ssa.Instruction)), "the caller's context is merged before (or into a different map than) the set's Globals: globals override context entries")
		}
	}
	if n == 0 {
		r.Bad("merge", "-", "no execution-reachable function merges TemplateSet.Globals and the caller's context")
	}
	// Private before Public in the resolver
	res := p.Method("variableResolver", "resolve")
	if res == nil {
		r.Unk("anchor", "-", "anchor unresolved: (*variableResolver).resolve")
		return
	}
	var priv, pub *ssa.Lookup
	for _, b := range res.Blocks {
		for _, in := range b.Instrs {
			if lk, ok := in.(*ssa.Lookup); ok {
				if loadsField(lk.X, "ExecutionContext", "Private") {
					priv = lk
				}
				if loadsField(lk.X, "ExecutionContext", "Public") {
					pub = lk
				}
			}
		}
	}
	if priv == nil || pub == nil {
		r.Bad("resolve:order", p.Pos(res.Pos()), "the resolver does not look a name up in both Private and Public")
		return
	}
	if !priv.CommaOk {
		r.Bad("resolve:order", p.InstrPos(priv), "the Private lookup is not a comma-ok lookup: a tag-set nil value cannot shadow a context key")
		return
	}
	g := Guarded(pub, func(c ssa.Value, pol bool) bool {
		return lookupCommaOk(c) == priv && !pol
	})
	sameKey := p.VN(priv.Index) == p.VN(pub.Index)
	if g && sameKey {
		r.OK("resolve:order", p.InstrPos(pub), "Public is consulted only on a miss in Private, with the same key")
	} else {
		r.Bad("resolve:order", p.InstrPos(pub), "Public lookup is not restricted to the miss edge of the Private lookup (same key: %v)", sameKey)
	}
}

// ruleC12ForBind: the for tag binds its declared loop variables, all of them and nothing else, on every iteration:
// a name taken from a node field is bound either unconditionally or under a test of that NAME (is a second variable
// declared?) — never depending on whether the iteration happens to supply a value, and never without such a test when
// the parser leaves the field empty for loops with one variable.
func ruleC12ForBind(p *Prog, a *Anchors, r *Report) {
	r.Begin("R-C12-FORBIND", "for binds each declared loop variable on every iteration and never binds an undeclared (empty) name: the binding of a name depends at most on that name being declared", 2)
	f := p.Func("(*tagForNode).Execute")
	if f == nil {
		r.Unk("anchor", "-", "anchor unresolved: (*tagForNode).Execute")
		return
	}
	// which name fields can stay empty: fields of tagForNode of type string that the parser stores conditionally
	parser := a.TagParsers["for"]
	for _, g := range withClosures(f) {
		for _, b := range g.Blocks {
			for _, in := range b.Instrs {
				mu, ok := in.(*ssa.MapUpdate)
				if !ok || !loadsField(mu.Map, "ExecutionContext", "Private") {
					continue
				}
				_, n, fld := fieldLoadBase(stripConv(mu.Key))
				if n == nil || n.Obj().Name() != "tagForNode" {
					continue
				}
				key := "(*tagForNode).Execute:bind " + fld
				// conditions guarding the update (within its function): any If that decides whether it runs
				dependsOnValue, testsName := false, false
				for _, cb := range g.Blocks {
					iff, isIf := cb.Instrs[len(cb.Instrs)-1].(*ssa.If)
					if !isIf || !cb.Dominates(b) || cb == b {
						continue
					}
					// does this branch decide? (one successor cannot reach the update)
					r0, r1 := ReachableBlocks(cb.Succs[0])[b] || cb.Succs[0] == b, ReachableBlocks(cb.Succs[1])[b] || cb.Succs[1] == b
					if r0 && r1 {
						continue
					}
					c, _ := normCond(iff.Cond, true)
					if bo, isBo := c.(*ssa.BinOp); isBo {
						if loadsField(bo.X, "tagForNode", fld) || loadsField(bo.Y, "tagForNode", fld) {
							testsName = true
							continue
						}
					}
					dependsOnValue = true
				}
				mayBeEmpty := parser != nil && fieldStoredConditionally(p, parser, "tagForNode", fld)
				switch {
				case dependsOnValue:
					r.Bad(key, p.InstrPos(in), "whether the loop variable %s is bound depends on a condition other than the name being declared (e.g. on the iteration supplying a value): over a list the declared second variable stays unbound and an outer name shows through", fld)
				case mayBeEmpty && !testsName:
					r.Bad(key, p.InstrPos(in), "the name in tagForNode.%s is empty when the loop declares one variable, and it is bound without a test: the empty name lands in the context (and breaks includes inside the loop)", fld)
				default:
					r.OK(key, p.InstrPos(in), "bound on every iteration%s", map[bool]string{true: " when declared", false: ""}[testsName])
				}
			}
		}
	}
}

// fieldStoredConditionally: in f, every store to T.field sits behind a branch (is not executed on every path to the
// successful return), i.e. the field can keep its zero value.
func fieldStoredConditionally(p *Prog, f *ssa.Function, typ, field string) bool {
	found := false
	for _, b := range f.Blocks {
		for _, in := range b.Instrs {
			st, ok := in.(*ssa.Store)
			if !ok || !isFieldAddrOf(st.Addr, typ, field) {
				continue
			}
			found = true
			for _, ret := range successReturns(f) {
				if MustPass(ret, func(x ssa.Instruction) bool { return x == ssa.Instruction(st) }) {
					return false
				}
			}
		}
	}
	_ = found
	return true // no store on every successful path: the field can stay empty
}

// ownTableOf: the map value is the field of the builder's receiver itself (in the builder, or in a helper that is
// handed the receiver), not of a template reached from it.
func ownTableOf(fn, builder *ssa.Function, m ssa.Value) bool {
	base, _, _ := fieldLoadBase(m)
	if base == nil {
		return false
	}
	strip := func(v ssa.Value) ssa.Value {
		if u, ok := v.(*ssa.UnOp); ok {
			if sv := localLoadValue(u); sv != nil {
				return sv
			}
		}
		return v
	}
	base = strip(base)
	pa, ok := base.(*ssa.Parameter)
	if !ok || len(builder.Params) == 0 {
		return false
	}
	if fn == builder {
		return pa == builder.Params[0]
	}
	idx := -1
	for i, q := range fn.Params {
		if q == pa {
			idx = i
		}
	}
	calls := callsTo(builder, fn)
	if idx < 0 || len(calls) == 0 {
		return false
	}
	for _, hc := range calls {
		args := callArgs(hc.Common())
		if idx >= len(args) || strip(args[idx]) != ssa.Value(builder.Params[0]) {
			return false
		}
	}
	return true
}
