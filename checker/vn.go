package main

// vn.go: engine VN — structural value keys inside one function (go/ssa has no CSE),
// purity of functions, small SSA utilities.

import (
	"fmt"
	"go/constant"
	"go/token"
	"go/types"
	"strings"

	"golang.org/x/tools/go/ssa"
)

// pure-function packages for value numbering (results depend only on arguments; no writes through them)
var purePkgs = map[string]bool{
	"reflect": true, "strings": true, "strconv": true, "math": true, "unicode": true,
	"unicode/utf8": true, "path/filepath": true, "bytes": false,
}

// declared exceptions: functions treated as effect-free although they call the logger
var pureExceptions = map[string]string{
	"logf":                "writes only to the process log (debug flag)",
	"(*TemplateSet).logf": "writes only to the process log (Debug flag)",
}

// IsPure: 1 pure, -1 impure. A package function is pure if it has no store/map update/send/go/defer
// and calls only pure functions (static callees); pureExceptions are declared.
func (p *Prog) IsPure(f *ssa.Function) bool {
	if f == nil {
		return false
	}
	if v, ok := p.pureCache[f]; ok {
		return v >= 0 // in-progress (0) counts as pure: recursion does not add effects
	}
	if !p.InPkg(f) {
		res := -1
		if f.Pkg != nil && purePkgs[f.Pkg.Pkg.Path()] {
			res = 1
		}
		if f.Pkg != nil && f.Pkg.Pkg.Path() == "fmt" && (f.Name() == "Sprintf" || f.Name() == "Errorf" || f.Name() == "Sprint") {
			res = 1
		}
		if f.Pkg != nil && f.Pkg.Pkg.Path() == "errors" && f.Name() == "New" {
			res = 1
		}
		p.pureCache[f] = res
		return res > 0
	}
	if _, ok := pureExceptions[p.FuncName(f)]; ok {
		p.pureCache[f] = 1
		return true
	}
	p.pureCache[f] = 0
	res := 1
	for _, b := range f.Blocks {
		for _, in := range b.Instrs {
			switch in := in.(type) {
			case *ssa.Store:
				if !addrOfLocalAlloc(in.Addr) {
					res = -1
				}
			case *ssa.MapUpdate, *ssa.Send, *ssa.Go, *ssa.Defer, *ssa.Panic:
				res = -1
			case *ssa.Call:
				c := in.Common()
				if c.IsInvoke() {
					res = -1
				} else if callee := c.StaticCallee(); callee != nil {
					if !p.IsPure(callee) {
						res = -1
					}
				} else if b, ok := c.Value.(*ssa.Builtin); ok {
					switch b.Name() {
					case "len", "cap", "min", "max":
					case "append":
						// append to a locally allocated slice only builds a new value
					default:
						res = -1
					}
				} else {
					res = -1
				}
			}
		}
	}
	p.pureCache[f] = res
	return res > 0
}

// VN returns a structural key of v: two values with the same key denote the same value provided no
// store to the loaded locations lies between them (callers use it for guard/use pairs in one function).
func (p *Prog) VN(v ssa.Value) string {
	if v == nil {
		return "<nil>"
	}
	if s, ok := p.vnCache[v]; ok {
		return s
	}
	p.vnCache[v] = "id:" + v.Name() // cycle breaker
	s := p.vn(v)
	p.vnCache[v] = s
	return s
}

func (p *Prog) vn(v ssa.Value) string {
	switch v := v.(type) {
	case *ssa.Const:
		if v.Value == nil {
			return "nil:" + types.TypeString(v.Type(), nil)
		}
		return "const(" + v.Value.ExactString() + ")"
	case *ssa.Parameter:
		return "param:" + v.Name()
	case *ssa.FreeVar:
		return "free:" + v.Name()
	case *ssa.Global:
		return "global:" + v.Name()
	case *ssa.Function:
		return "func:" + p.FuncName(v)
	case *ssa.Builtin:
		return "builtin:" + v.Name()
	case *ssa.FieldAddr:
		return "&(" + p.VN(v.X) + ")." + fieldName(v.X.Type(), v.Field)
	case *ssa.Field:
		return "(" + p.VN(v.X) + ")." + fieldName(v.X.Type(), v.Field)
	case *ssa.IndexAddr:
		return "&(" + p.VN(v.X) + ")[" + p.VN(v.Index) + "]"
	case *ssa.Index:
		return "(" + p.VN(v.X) + ")[" + p.VN(v.Index) + "]"
	case *ssa.UnOp:
		if v.Op == token.MUL {
			// a spilled parameter/local with a single store denotes that value
			if cell, ok := v.X.(*ssa.Alloc); ok {
				if st := p.cellStores[cell]; len(st) == 1 && !p.cellEscapes(cell) {
					return p.VN(st[0])
				}
			}
			return "*(" + p.VN(v.X) + ")"
		}
		return v.Op.String() + "(" + p.VN(v.X) + ")"
	case *ssa.BinOp:
		return "(" + p.VN(v.X) + " " + v.Op.String() + " " + p.VN(v.Y) + ")"
	case *ssa.Lookup:
		return fmt.Sprintf("lookup(%s,%s,%v)", p.VN(v.X), p.VN(v.Index), v.CommaOk)
	case *ssa.Extract:
		return fmt.Sprintf("extract(%s,%d)", p.VN(v.Tuple), v.Index)
	case *ssa.TypeAssert:
		return fmt.Sprintf("assert(%s,%s,%v)", p.VN(v.X), types.TypeString(v.AssertedType, nil), v.CommaOk)
	case *ssa.ChangeType:
		return p.VN(v.X)
	case *ssa.Convert:
		return "conv(" + p.VN(v.X) + "," + types.TypeString(v.Type(), nil) + ")"
	case *ssa.ChangeInterface:
		return p.VN(v.X)
	case *ssa.MakeInterface:
		return "iface(" + p.VN(v.X) + ")"
	case *ssa.Call:
		c := v.Common()
		if callee := c.StaticCallee(); callee != nil && p.IsPure(callee) {
			var args []string
			for _, a := range c.Args {
				args = append(args, p.VN(a))
			}
			return "call(" + p.FuncName(callee) + ";" + strings.Join(args, ",") + ")"
		}
		if b, ok := c.Value.(*ssa.Builtin); ok && (b.Name() == "len" || b.Name() == "cap") {
			return b.Name() + "(" + p.VN(c.Args[0]) + ")"
		}
	}
	fn := ""
	if in, ok := v.(ssa.Instruction); ok && in.Parent() != nil {
		fn = in.Parent().Name()
	}
	return "id:" + fn + ":" + v.Name()
}

func fieldName(T types.Type, idx int) string {
	if pt, ok := T.Underlying().(*types.Pointer); ok {
		T = pt.Elem()
	}
	st, ok := T.Underlying().(*types.Struct)
	if !ok || idx >= st.NumFields() {
		return fmt.Sprintf("f%d", idx)
	}
	return st.Field(idx).Name()
}

// structOf returns the named struct type a FieldAddr/Field base refers to (through one pointer), or nil.
func structOf(T types.Type) *types.Named {
	if pt, ok := T.Underlying().(*types.Pointer); ok {
		T = pt.Elem()
	}
	n, _ := T.(*types.Named)
	return n
}

func typeName(T types.Type) string {
	return types.TypeString(T, func(*types.Package) string { return "" })
}

// isFieldAddrOf: v is &X.field with X of (pointer to) named struct `typ`.
func isFieldAddrOf(v ssa.Value, typ, field string) bool {
	fa, ok := v.(*ssa.FieldAddr)
	if !ok {
		return false
	}
	n := structOf(fa.X.Type())
	return n != nil && n.Obj().Name() == typ && fieldName(fa.X.Type(), fa.Field) == field
}

// loadsField: v is a load of X.field (through FieldAddr+load, or Field on a struct value).
func loadsField(v ssa.Value, typ, field string) bool {
	switch v := v.(type) {
	case *ssa.UnOp:
		return v.Op == token.MUL && isFieldAddrOf(v.X, typ, field)
	case *ssa.Field:
		n := structOf(v.X.Type())
		return n != nil && n.Obj().Name() == typ && fieldName(v.X.Type(), v.Field) == field
	}
	return false
}

// fieldLoadBase returns X for a load of X.field, or nil.
func fieldLoadBase(v ssa.Value) (base ssa.Value, typ *types.Named, field string) {
	switch v := v.(type) {
	case *ssa.UnOp:
		if v.Op == token.MUL {
			if fa, ok := v.X.(*ssa.FieldAddr); ok {
				return fa.X, structOf(fa.X.Type()), fieldName(fa.X.Type(), fa.Field)
			}
		}
	case *ssa.Field:
		return v.X, structOf(v.X.Type()), fieldName(v.X.Type(), v.Field)
	}
	return nil, nil, ""
}

// stripConv removes value-preserving conversions.
func stripConv(v ssa.Value) ssa.Value {
	for {
		switch x := v.(type) {
		case *ssa.ChangeType:
			v = x.X
		case *ssa.ChangeInterface:
			v = x.X
		case *ssa.MakeInterface:
			v = x.X
		default:
			return v
		}
	}
}

// constString returns the string constant v denotes, if any.
func constString(v ssa.Value) (string, bool) {
	c, ok := stripConv(v).(*ssa.Const)
	if !ok || c.Value == nil || c.Value.Kind() != constant.String {
		return "", false
	}
	return constant.StringVal(c.Value), true
}

func constInt(v ssa.Value) (int64, bool) {
	c, ok := stripConv(v).(*ssa.Const)
	if !ok || c.Value == nil {
		return 0, false
	}
	if c.Value.Kind() != constant.Int {
		return 0, false
	}
	i, exact := constant.Int64Val(c.Value)
	return i, exact
}

func constBool(v ssa.Value) (bool, bool) {
	c, ok := stripConv(v).(*ssa.Const)
	if !ok || c.Value == nil || c.Value.Kind() != constant.Bool {
		return false, false
	}
	return constant.BoolVal(c.Value), true
}

func isNilConst(v ssa.Value) bool {
	c, ok := v.(*ssa.Const)
	return ok && c.Value == nil
}

// staticCallee of an instruction, or nil.
func calleeOf(in ssa.Instruction) *ssa.Function {
	ci, ok := in.(ssa.CallInstruction)
	if !ok {
		return nil
	}
	return ci.Common().StaticCallee()
}

// calleeName: "pkgpath.Func" or "(recv).Method" for static callees, "invoke:Iface.Method" for interface calls, "builtin:x".
func (p *Prog) calleeName(c *ssa.CallCommon) string {
	if c.IsInvoke() {
		return "invoke:" + typeName(c.Value.Type()) + "." + c.Method.Name()
	}
	if f := c.StaticCallee(); f != nil {
		return p.extName(f)
	}
	if b, ok := c.Value.(*ssa.Builtin); ok {
		return "builtin:" + b.Name()
	}
	return "dynamic"
}

// extName: full name including package path for functions outside the package, stable name inside.
func (p *Prog) extName(f *ssa.Function) string {
	if p.InPkg(f) {
		return p.FuncName(f)
	}
	if recv := f.Signature.Recv(); recv != nil {
		return "(" + types.TypeString(recv.Type(), nil) + ")." + f.Name()
	}
	if f.Pkg != nil {
		return f.Pkg.Pkg.Path() + "." + f.Name()
	}
	return f.String()
}

// callArgs returns the actual arguments including the receiver for invoke calls first.
func callArgs(c *ssa.CallCommon) []ssa.Value {
	if c.IsInvoke() {
		return append([]ssa.Value{c.Value}, c.Args...)
	}
	return c.Args
}

// referrers that are not DebugRefs
func refs(v ssa.Value) []ssa.Instruction {
	r := v.Referrers()
	if r == nil {
		return nil
	}
	var out []ssa.Instruction
	for _, in := range *r {
		if _, ok := in.(*ssa.DebugRef); ok {
			continue
		}
		out = append(out, in)
	}
	return out
}

// addrOfLocalAlloc: the address points into an object allocated in this function (varargs arrays, composite literals).
func addrOfLocalAlloc(a ssa.Value) bool {
	for i := 0; i < 6; i++ {
		switch x := a.(type) {
		case *ssa.Alloc:
			return true
		case *ssa.IndexAddr:
			a = x.X
		case *ssa.FieldAddr:
			a = x.X
		default:
			return false
		}
	}
	return false
}
