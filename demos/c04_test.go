package demos

import (
	"sync"
	"testing"

	pongo2 "github.com/flosch/pongo2/v6"
)

func renderTwice(t *testing.T, src string, ctx pongo2.Context, opt func(*pongo2.Template)) (string, string) {
	t.Helper()
	tpl, err := newSet(nil).FromString(src)
	if err != nil {
		t.Fatal(err)
	}
	if opt != nil {
		opt(tpl)
	}
	a, err := tpl.Execute(ctx)
	if err != nil {
		t.Fatal(err)
	}
	b, err := tpl.Execute(ctx)
	if err != nil {
		t.Fatal(err)
	}
	return a, b
}

func TestC04_CycleResumes(t *testing.T) {
	a, b := renderTwice(t, `{% for i in "abc" %}{% cycle "1" "2" %}{% endfor %}`, nil, nil)
	if a != b {
		t.Errorf("cycle: first render %q, second render %q", a, b)
	}
	a, b = renderTwice(t, `{% for i in "abc" %}{% cycle "1" "2" as c silent %}{{ c }}{% cycle c %}{% endfor %}`, nil, nil)
	if a != b {
		t.Errorf("cycle as: first render %q, second render %q", a, b)
	}
}

func TestC04_IfchangedRemembers(t *testing.T) {
	a, b := renderTwice(t, `{% ifchanged %}x{% endifchanged %}|{% ifchanged v %}y{% endifchanged %}`, pongo2.Context{"v": 1}, nil)
	if a != b {
		t.Errorf("ifchanged: first render %q, second render %q", a, b)
	}
}

func TestC04_TrimBlocksAccumulates(t *testing.T) {
	a, b := renderTwice(t, "{% if true %}\n\n\nx{% endif %}  \t{% if true %}y{% endif %}", nil, func(tpl *pongo2.Template) {
		tpl.Options.TrimBlocks = true
		tpl.Options.LStripBlocks = true
	})
	if a != b {
		t.Errorf("TrimBlocks: first render %q, second render %q", a, b)
	}
	if a != "\n\nxy" {
		t.Errorf("TrimBlocks/LStripBlocks: got %q want %q", a, "\n\nxy")
	}
}

// go test -race shows the unsynchronised writes; without -race this only exercises the code
func TestC05_ConcurrentCompileAndRender(t *testing.T) {
	set := newSet(map[string]string{"inc.tpl": "x"})
	tpl, err := set.FromString(`{% for i in "ab" %}{% cycle "1" "2" %}{% ifchanged i %}c{% endifchanged %}{% include name %}{% endfor %}`)
	if err != nil {
		t.Fatal(err)
	}
	var wg sync.WaitGroup
	for g := 0; g < 8; g++ {
		wg.Add(1)
		go func() {
			defer wg.Done()
			for i := 0; i < 50; i++ {
				tpl.Execute(pongo2.Context{"name": "inc.tpl"})
				set.FromString("a")
			}
		}()
	}
	wg.Wait()
}
