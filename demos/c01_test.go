package demos

import (
	"strings"
	"testing"

	pongo2 "github.com/flosch/pongo2/v6"
)

func TestC01_UnexportedField(t *testing.T) {
	out, err := render(t, newSet(nil), "[{{ s.name }}]", pongo2.Context{"s": withUnexported{"A", "b"}})
	if err != nil || out != "[]" {
		t.Errorf("unexported field: out=%q err=%v, want empty value", out, err)
	}
	out, err = render(t, newSet(nil), `[{{ s["name"] }}]`, pongo2.Context{"s": withUnexported{"A", "b"}})
	if err != nil || out != "[]" {
		t.Errorf("unexported field via subscript: out=%q err=%v, want empty value", out, err)
	}
}

func TestC01_WrongTypedMapKey(t *testing.T) {
	out, err := render(t, newSet(nil), "[{{ m.key }}]", pongo2.Context{"m": map[int]string{1: "x"}})
	if err != nil || out != "[]" {
		t.Errorf("string key on map[int]: out=%q err=%v, want empty value", out, err)
	}
}

func TestC01_SliceOfArray(t *testing.T) {
	out, err := render(t, newSet(nil), `{{ arr|slice:"1:3"|join:"," }}`, pongo2.Context{"arr": [4]int{1, 2, 3, 4}})
	if err != nil || out != "2,3" {
		t.Errorf("slice of array value: out=%q err=%v, want 2,3", out, err)
	}
}

func TestC01_ForloopShadowed(t *testing.T) {
	out, err := render(t, newSet(nil), `{% set forloop = 1 %}{% for i in "ab" %}{{ i }}{% endfor %}`, nil)
	if err != nil || out != "ab" {
		t.Errorf("forloop shadowed by set: out=%q err=%v", out, err)
	}
}

func TestC01_CycleWithoutArgs(t *testing.T) {
	_, err := render(t, newSet(nil), `{% for i in "ab" %}{% cycle %}{% endfor %}`, nil)
	if err == nil {
		t.Errorf("cycle without arguments must be an error, not a panic or silent success")
	}
}

func TestC01_IncludeWithFailingWriter(t *testing.T) {
	set := newSet(map[string]string{"inc.tpl": "included text"})
	for _, src := range []string{`a{% include "inc.tpl" %}b`, `a{% include name %}b`} {
		func() {
			defer func() {
				if e := recover(); e != nil {
					t.Errorf("PANIC %q with failing writer: %v", src, e)
				}
			}()
			tpl, err := set.FromString(src)
			if err != nil {
				t.Fatal(err)
			}
			err = tpl.ExecuteWriterUnbuffered(pongo2.Context{"name": "inc.tpl"}, &failWriter{})
			if err == nil || !strings.Contains(err.Error(), "writer is broken") {
				t.Errorf("%q: want the writer's error back, got %v", src, err)
			}
		}()
	}
}

func TestC01_C13_ImportedMacroRecursion(t *testing.T) {
	set := newSet(map[string]string{
		"m.tpl": `{% macro boom(n) export %}{{ boom(n) }}{% endmacro %}`,
	})
	tpl, err := set.FromString(`{% import "m.tpl" boom %}{{ boom(1) }}`)
	if err != nil {
		t.Fatal(err)
	}
	// on the pinned tree this overflows the goroutine stack and kills the process (not recoverable):
	// run only when the guard is known to be there
	if !importedMacroGuarded() {
		t.Errorf("imported macro bypasses the depth guard (running it would kill the test process)")
		return
	}
	_, err = tpl.Execute(nil)
	if err == nil || !strings.Contains(err.Error(), "maximum recursive macro call depth") {
		t.Errorf("want depth error, got %v", err)
	}
}

// C01 "contexts containing nil pointers": a nil *pongo2.Value as a context entry or as a function's result.
func TestC01_NilValuePointer(t *testing.T) {
	ctx := pongo2.Context{
		"v": (*pongo2.Value)(nil),
		"f": func() *pongo2.Value { return nil },
	}
	for src, want := range map[string]string{`[{{ v }}]`: "[]", `[{{ f() }}]`: "[]", `[{% if v %}y{% else %}n{% endif %}]`: "[n]", `[{{ v|default:"d" }}]`: "[d]", `[{{ f()|length }}]`: "[0]"} {
		out, err := render(t, newSet(nil), src, ctx)
		if err != nil || out != want {
			t.Errorf("%s => %q %v; want %q", src, out, err, want)
		}
	}
}

type c01Audit struct{ By string }

func (a *c01Audit) Summary() string { return "by " + a.By }

type c01Post struct {
	Title string
	*c01Audit
}

// C01 "the engine itself never panics … whatever the template asks for": a method promoted through a nil embedded
// pointer can only be reached by dereferencing it (Go panics inside reflect's Call), and a context function that
// panics took the process down as well. Both now end the execution with an error, as in text/template.
func TestC01_PanicsOfCalledCodeAreErrors(t *testing.T) {
	ctx := pongo2.Context{
		"post": c01Post{Title: "two"},
		"boom": func() string { panic("boom") },
	}
	for _, src := range []string{`{{ post.Summary }}`, `{{ boom() }}`} {
		out, err := render(t, newSet(nil), src, ctx)
		if err == nil {
			t.Errorf("%s: got %q, want an execution error", src, out)
		}
	}
}
