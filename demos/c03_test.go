package demos

import "testing"

func TestC03_FilterTagIgnoresBan(t *testing.T) {
	set := newSet(nil)
	if err := set.BanFilter("upper"); err != nil {
		t.Fatal(err)
	}
	out, err := render(t, set, `{% filter upper %}abc{% endfilter %}`, nil)
	if err == nil {
		t.Errorf("banned filter ran through the filter tag: out=%q", out)
	}
	out, err = render(t, set, `{% filter lower|upper %}abc{% endfilter %}`, nil)
	if err == nil {
		t.Errorf("banned filter ran as second element of a filter-tag chain: out=%q", out)
	}
	if _, err := render(t, set, `{% filter lower %}ABC{% endfilter %}`, nil); err != nil {
		t.Errorf("not banned filter must keep working: %v", err)
	}
}
