package demos

import (
	"os"
	"regexp"
)

// importedMacroGuarded reads the repository source to decide whether running the recursive imported macro is
// survivable (a stack overflow cannot be recovered from inside a test).
func importedMacroGuarded() bool {
	imp, _ := os.ReadFile("/repo/tags_import.go")
	mac, _ := os.ReadFile("/repo/tags_macro.go")
	callIdx := regexp.MustCompile(`func \(node \*tagMacroNode\) call\(`).FindIndex(mac)
	if callIdx == nil {
		return false
	}
	body := string(mac[callIdx[0]:])
	return regexp.MustCompile(`macroDepth`).MatchString(body) || regexp.MustCompile(`macroDepth`).Match(imp)
}
