package demos

import (
	"testing"

	"github.com/flosch/pongo2/v6"
)

// C06 "the body of a verbatim block is emitted literally and never interpreted, however many verbatim blocks there
// are": the tags were recognised in the byte-exact spellings "{% verbatim %}" / "{% endverbatim %}" only. With another
// spelling the first block did not end (what followed was printed, not evaluated) or the body was interpreted.
func TestC06_VerbatimTagSpellings(t *testing.T) {
	ctx := pongo2.Context{"a": "A"}
	for _, c := range []struct{ src, want string }{
		{`{% verbatim %}{{ x }}{%endverbatim%}[{{ a }}]{% verbatim %}{{ y }}{% endverbatim %}`, `{{ x }}[A]{{ y }}`},
		{`{% verbatim %}{{ x }}{%  endverbatim  %}[{{ a }}]{% verbatim %}{{ y }}{% endverbatim %}`, `{{ x }}[A]{{ y }}`},
		{`{%verbatim%}{{ x y }}{% endverbatim %}`, `{{ x y }}`},
		{`{% verbatim  %}{{ "unclosed }}{% endverbatim %}`, `{{ "unclosed }}`},
		{"{%\tverbatim\t%}{% if %}{%\tendverbatim\t%}", `{% if %}`},
		{`{% verbatim %}{% endverbatimx %}{% endverbatim %}`, `{% endverbatimx %}`},
	} {
		out, err := render(t, newSet(nil), c.src, ctx)
		if err != nil || out != c.want {
			t.Errorf("%q: got %q, %v; want %q", c.src, out, err, c.want)
		}
	}
}
