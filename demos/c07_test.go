package demos

import (
	"testing"

	"github.com/flosch/pongo2/v6"
)

// C07 "then and/or … all left-associative": `a and b or c` reads `(a and b) or c`. The parser took the whole rest of
// the expression as the right operand of the first and/or, so it read `a and (b or c)` and the true branch of an `if`
// was skipped (C09 "renders exactly the first branch whose condition is true").
func TestC07_AndOrGrouping(t *testing.T) {
	ctx := pongo2.Context{"t": true, "f": false}
	for _, c := range []struct{ src, want string }{
		{`{% if f and f or t %}then{% else %}else{% endif %}`, "then"},
		{`{% if f && f || t %}then{% else %}else{% endif %}`, "then"},
		{`{% if f %}1{% elif f and f or t %}2{% elif t %}3{% else %}4{% endif %}`, "2"},
		{`{{ f and t or t }}`, "True"},
		{`{{ t or f and f }}`, "True"}, // and binds tighter than or (also what the old right-nesting gave)
		{`{{ t or t and f }}`, "True"},
		{`{{ (t or t) and f }}`, "False"},
		{`{{ f or f or t }}`, "True"},
		{`{{ t and t and f }}`, "False"},
	} {
		out, err := render(t, newSet(nil), c.src, ctx)
		if err != nil || out != c.want {
			t.Errorf("%s: got %q, %v; want %q", c.src, out, err, c.want)
		}
	}
}

// C07 "float arithmetic as soon as a float is involved … modulo by zero is an execution error": `%` truncated both
// operands to integers, so 5.5 % 2 printed 1 and 5 % 0.5 failed with "integer divide by zero".
func TestC07_ModuloWithFloatOperand(t *testing.T) {
	for _, c := range []struct{ src, want string }{
		{`{{ 5.5 % 2 }}`, "1.500000"},
		{`{{ 7 % 2.5 }}`, "2.000000"},
		{`{{ 5 % 0.5 }}`, "0.000000"},
		{`{{ 5.25 % 0.5 }}`, "0.250000"},
		{`{{ 7 % 2 }}`, "1"},
	} {
		out, err := render(t, newSet(nil), c.src, nil)
		if err != nil || out != c.want {
			t.Errorf("%s: got %q, %v; want %q", c.src, out, err, c.want)
		}
	}
	if out, err := render(t, newSet(nil), `{{ 5.5 % 0.0 }}`, nil); err == nil {
		t.Errorf("5.5 %% 0.0: got %q, want an execution error", out)
	}
}

// C07 "the printed form of a result is canonical (… True/False)": not/! on a number printed 1, 0 and even 1.100000.
func TestC07_NotOnNumbersIsBoolean(t *testing.T) {
	ctx := pongo2.Context{"z": 0, "i": 7, "fz": 0.0}
	for _, c := range []struct{ src, want string }{
		{`{{ not 0 }}`, "True"}, {`{{ not 5 }}`, "False"}, {`{{ !0.0 }}`, "True"}, {`{{ !2.5 }}`, "False"},
		{`{{ not z }}`, "True"}, {`{{ not i }}`, "False"}, {`{{ not fz }}`, "True"}, {`{{ not "" }}`, "True"},
		{`{{ !true }}`, "False"},
	} {
		out, err := render(t, newSet(nil), c.src, ctx)
		if err != nil || out != c.want {
			t.Errorf("%s: got %q, %v; want %q", c.src, out, err, c.want)
		}
	}
}
