package demos

import (
	"testing"

	"github.com/flosch/pongo2/v6"
)

// C17 "`removetags` removes only the named tags": surrounding white space was trimmed, and the names were removed one
// after the other on the already modified text, so removing <b> from "<<b>i>" made up an <i> that was removed next.
func TestC17_RemovetagsOnlyNamedTags(t *testing.T) {
	for _, c := range []struct{ in, tags, want string }{
		{"  hello  ", "b", "  hello  "},
		{"\n<b>x</b>\n", "b", "\nx\n"},
		{" ", "b", " "},
		{"<<b>i>", "b,i", "<i>"},
		{"<<b>i>", "i,b", "<i>"},
		{"<strong><i>Hello!</i></strong>", "i", "<strong>Hello!</strong>"},
		{"<b>a</b><i>b</i><u>c</u>", "b,i", "ab<u>c</u>"},
	} {
		v, err := pongo2.ApplyFilter("removetags", pongo2.AsValue(c.in), pongo2.AsValue(c.tags))
		if err != nil || v.String() != c.want {
			t.Errorf("%q|removetags:%q: got %q, %v; want %q", c.in, c.tags, v, err, c.want)
		}
	}
}
