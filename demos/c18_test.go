package demos

import (
	"testing"

	"github.com/flosch/pongo2/v6"
)

// C18 "`slice` is Python slicing … for all arguments, including negative, zero, huge and out-of-range ones": a bound no
// int can hold was converted with int(f), which is implementation-defined (amd64: the smallest int), so a huge lower
// bound became 0 and a huge upper bound 0 as well.
func TestC18_SliceHugeBounds(t *testing.T) {
	ctx := pongo2.Context{"l": []int{1, 2, 3, 4, 5}, "big": 1e300}
	for _, c := range []struct{ src, want string }{
		{`{{ "hello"|slice:"99999999999999999999:" }}`, ""},
		{`{{ "hello"|slice:":99999999999999999999" }}`, "hello"},
		{`{{ "hello"|slice:"9223372036854775808:" }}`, ""},
		{`{{ l|slice:":9223372036854775808"|join:"," }}`, "1,2,3,4,5"},
		{`{{ "hello"|slice:"1e30:" }}`, ""},
		{`{{ "hello"|slice:"1:3" }}`, "el"},
		{`{% widthratio big 1 big %}`, "9223372036854775807"},
	} {
		out, err := render(t, newSet(nil), c.src, ctx)
		if err != nil || out != c.want {
			t.Errorf("%s: got %q, %v; want %q", c.src, out, err, c.want)
		}
	}
}

// C18 "floatformat … compute the documented value": a quoted positive argument switched the trimming mode on
// (34.0|floatformat:"3" printed 34), and whole numbers beyond the int range were not recognised as whole.
func TestC18_FloatformatArgumentForms(t *testing.T) {
	for _, c := range []struct{ src, want string }{
		{`{{ 34.0|floatformat:"3" }}`, "34.000"},
		{`{{ 34.0|floatformat:3 }}`, "34.000"},
		{`{{ 0|floatformat:"2" }}`, "0.00"},
		{`{{ 34.5|floatformat:"3" }}`, "34.500"},
		{`{{ 34.0|floatformat:"-3" }}`, "34"},
		{`{{ 34.26|floatformat:"-3" }}`, "34.260"},
		{`{{ 34.0|floatformat }}`, "34"},
		{`{{ 34.26|floatformat }}`, "34.3"},
		{`{{ big|floatformat }}`, "1000000000000000019884624838656"},
	} {
		out, err := render(t, newSet(nil), c.src, pongo2.Context{"big": 1e30})
		if err != nil || out != c.want {
			t.Errorf("%s: got %q, %v; want %q", c.src, out, err, c.want)
		}
	}
}
