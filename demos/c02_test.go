package demos

import (
	"strings"
	"testing"

	pongo2 "github.com/flosch/pongo2/v6"
)

const evil = `<b>&'"`

func noRaw(t *testing.T, name, src string, ctx pongo2.Context) {
	t.Helper()
	out, err := render(t, newSet(nil), src, ctx)
	if err != nil {
		t.Errorf("%s: %v", name, err)
		return
	}
	if strings.ContainsAny(out, "<>'\"") {
		t.Errorf("%s: %q renders context text raw: %q", name, src, out)
	}
}

func TestC02_Stringer(t *testing.T) {
	noRaw(t, "stringer", `{{ s }}`, pongo2.Context{"s": stringer{evil}})
	noRaw(t, "int stringer", `{{ s }}`, pongo2.Context{"s": intStringer(1)})
	noRaw(t, "pointer to stringer", `{{ s }}`, pongo2.Context{"s": &stringer{evil}})
}

func TestC02_ArrayLiteral(t *testing.T) {
	noRaw(t, "first of literal", `{{ [x]|first }}`, pongo2.Context{"x": evil})
	noRaw(t, "for over literal", `{% for i in [x] %}{{ i }}{% endfor %}`, pongo2.Context{"x": evil})
	noRaw(t, "last of literal", `{{ [x, x]|last }}`, pongo2.Context{"x": evil})
}

func TestC02_Cycle(t *testing.T) {
	noRaw(t, "cycle", `{% for i in "ab" %}{% cycle x x %}{% endfor %}`, pongo2.Context{"x": evil})
	noRaw(t, "cycle as", `{% for i in "ab" %}{% cycle x x as c %}{% cycle c %}{% endfor %}`, pongo2.Context{"x": evil})
}

// recorded as a known finding (not repaired): the filter tag writes the filtered body raw, as Django does
func TestC02_FilterTagParam_KNOWN(t *testing.T) {
	out, err := render(t, newSet(nil), `{% filter add:x %}a{% endfilter %}`, pongo2.Context{"x": evil})
	if err != nil {
		t.Fatal(err)
	}
	if strings.ContainsAny(out, "<>'\"") {
		t.Skipf("KNOWN FINDING: {%% filter add:x %%} renders the context-derived parameter raw: %q", out)
	}
}
