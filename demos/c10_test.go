package demos

import (
	"testing"

	"github.com/flosch/pongo2/v6"
)

// C10 "also for blocks nested … in branches or in loops — and block.Super inside a definition yields the next
// less-derived definition": Super rendered the parent definition in the scope the block was entered with, so inside a
// loop or a with the parent definition did not see the loop variable / the with pair.
func TestC10_SuperRendersWhereItStands(t *testing.T) {
	set := newSet(map[string]string{
		"base":   "[{% block a %}A0:{{ i }}{{ x }} {% endblock %}]",
		"child":  "{% extends 'base' %}{% block a %}{% for i in l %}{{ i }}>{{ block.Super }}{% endfor %}{% endblock %}",
		"child2": "{% extends 'base' %}{% block a %}{% with x='w' %}{{ x }}>{{ block.Super }}{% endwith %}{% endblock %}",
	})
	for name, want := range map[string]string{"child": "[1>A0:1 2>A0:2 ]", "child2": "[w>A0:w ]"} {
		tpl, err := set.FromFile(name)
		if err != nil {
			t.Fatal(err)
		}
		out, err := tpl.Execute(pongo2.Context{"l": []int{1, 2}})
		if err != nil || out != want {
			t.Errorf("%s: got %q, %v; want %q", name, out, err, want)
		}
	}
}
