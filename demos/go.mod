module verif/demos

go 1.18

require github.com/flosch/pongo2/v6 v6.0.0

replace github.com/flosch/pongo2/v6 => /repo
