package demos

import (
	"testing"

	pongo2 "github.com/flosch/pongo2/v6"
)

func TestC06_ControlByteTruncates(t *testing.T) {
	src := "a\x01b{{ 1 }}c"
	out, err := render(t, newSet(nil), src, nil)
	if err != nil || out != "a\x01b1c" {
		t.Errorf("byte 0x01 in literal text: out=%q err=%v want %q", out, err, "a\x01b1c")
	}
}

func TestC11_SSIThroughLoader(t *testing.T) {
	set := newSet(map[string]string{"plain.txt": "PLAIN {{ 1 }}", "main.tpl": `[{% ssi "plain.txt" %}]`})
	tpl, err := set.FromFile("main.tpl")
	if err != nil {
		t.Fatalf("ssi of a file served by the set's (virtual) loader must work: %v", err)
	}
	out, err := tpl.Execute(nil)
	if err != nil || out != "[PLAIN {{ 1 }}]" {
		t.Errorf("out=%q err=%v", out, err)
	}
}

func TestC16_SSIErrorNamesTemplate(t *testing.T) {
	set := newSet(map[string]string{"main.tpl": `{% ssi "nope.txt" %}`})
	_, err := set.FromFile("main.tpl")
	if err == nil {
		t.Fatal("expected error")
	}
	perr, ok := err.(*pongo2.Error)
	if !ok {
		t.Fatalf("%T", err)
	}
	if perr.Filename != "main.tpl" {
		t.Errorf("compile error does not name its template: Filename=%q", perr.Filename)
	}
}

func TestC18_Widthratio(t *testing.T) {
	for _, c := range []struct{ src, want string }{
		{`{% widthratio 5 10 100 %}`, "50"},
		{`{% widthratio 175 200 100 %}`, "88"},
		{`{% widthratio 1 3 100 %}`, "33"},
		{`{% widthratio 2 3 100 %}`, "67"},
		{`{% widthratio 0 3 100 %}`, "0"},
	} {
		out, err := render(t, newSet(nil), c.src, nil)
		if err != nil || out != c.want {
			t.Errorf("%s = %q (err %v), want %s", c.src, out, err, c.want)
		}
	}
}

func TestC18_GetDigitNonDigit(t *testing.T) {
	out, err := render(t, newSet(nil), `{{ "é1"|get_digit:2 }}`, nil)
	if err != nil || out != "é1" {
		t.Errorf(`"é1"|get_digit:2 = %q (err %v), want the input unchanged (not an integer)`, out, err)
	}
	out, err = render(t, newSet(nil), `{{ 1234|get_digit:2 }}`, pongo2.Context{})
	if err != nil || out != "3" {
		t.Errorf(`1234|get_digit:2 = %q (err %v), want 3`, out, err)
	}
}

// C06 "however many verbatim blocks there are": an empty verbatim block and two blocks written next to each other.
func TestC06_VerbatimEmptyAndAdjacent(t *testing.T) {
	set := newSet(nil)
	for src, want := range map[string]string{
		"a{% verbatim %}{% endverbatim %}b":                                            "ab",
		"{% verbatim %}{{ x }}{% endverbatim %}{% verbatim %}{% y %}{% endverbatim %}": "{{ x }}{% y %}",
		"{% verbatim %}1{% endverbatim %}{# c #}{% verbatim %}2{% endverbatim %}":      "12",
	} {
		out, err := render(t, set, src, nil)
		if err != nil || out != want {
			t.Errorf("%q: got %q, %v; want %q", src, out, err, want)
		}
	}
}
