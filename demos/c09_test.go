package demos

import "testing"

// C09 "ifchanged prints only when the watched value differs from the previous iteration": a watched value that is a
// live view of a field updated in place (forloop.Counter) did differ on every iteration but was printed once.
func TestC09_IfchangedLiveField(t *testing.T) {
	src := `{% for i in "abc" %}{% ifchanged forloop.Counter %}x{% endifchanged %}{% endfor %}`
	out, err := render(t, newSet(nil), src, nil)
	if err != nil || out != "xxx" {
		t.Errorf("%s: got %q, %v; want \"xxx\"", src, out, err)
	}
}
