package demos

import "testing"

// C09 "ifchanged prints only when the watched value differs from the previous iteration": a watched value that is a
// live view of a field updated in place (forloop.Counter) did differ on every iteration but was printed once.
func TestC09_IfchangedLiveField(t *testing.T) {
	src := `{% for i in "abc" %}{% ifchanged forloop.Counter %}x{% endifchanged %}{% endfor %}`
	out, err := render(t, newSet(nil), src, nil)
	if err != nil || out != "xxx" {
		t.Errorf("%s: got %q, %v; want \"xxx\"", src, out, err)
	}
}

// C09 "ifchanged prints only when the watched value differs from the previous iteration": a watched value that stays
// nil, or stays an equal slice/map, counted as changed on every iteration (EqualValueTo answers false for those).
func TestC09_IfchangedNilAndSequences(t *testing.T) {
	ctx := map[string]any{
		"rows": [][]int{{1, 2}, {1, 2}, {3}, {3}},
		"nils": []any{nil, nil, nil},
		"maps": []map[string]int{{"a": 1}, {"a": 1}},
		"ints": []int{1, 1, 2, 2},
	}
	for _, c := range []struct{ src, want string }{
		{`{% for r in rows %}{% ifchanged r %}C{% else %}s{% endifchanged %}{% endfor %}`, "CsCs"},
		{`{% for x in nils %}{% ifchanged x %}C{% else %}s{% endifchanged %}{% endfor %}`, "Css"},
		{`{% for m in maps %}{% ifchanged m %}C{% else %}s{% endifchanged %}{% endfor %}`, "Cs"},
		{`{% for x in ints %}{% ifchanged nothing %}C{% else %}s{% endifchanged %}{% endfor %}`, "Csss"},
		{`{% for x in ints %}{% ifchanged x %}C{% else %}s{% endifchanged %}{% endfor %}`, "CsCs"},
	} {
		out, err := render(t, newSet(nil), c.src, ctx)
		if err != nil || out != c.want {
			t.Errorf("%s: got %q, %v; want %q", c.src, out, err, c.want)
		}
	}
}
