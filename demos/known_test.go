package demos

import (
	"testing"

	pongo2 "github.com/flosch/pongo2/v6"
)

// Known findings (recorded, not repaired): constructs that evaluate a map of expressions in Go's random map
// order and return the first error. With two failing entries the error differs from run to run, so
// "equal contexts produce equal errors" does not hold for these inputs.
func distinctErrors(t *testing.T, set *pongo2.TemplateSet, src string, ctx pongo2.Context) int {
	t.Helper()
	seen := map[string]bool{}
	for i := 0; i < 200; i++ {
		tpl, err := set.FromString(src)
		if err != nil {
			t.Fatal(err)
		}
		_, err = tpl.Execute(ctx)
		if err == nil {
			t.Fatalf("%q: expected an error", src)
		}
		seen[err.Error()] = true
	}
	return len(seen)
}

func TestC04_KNOWN_MapOrderErrors(t *testing.T) {
	set := newSet(map[string]string{"inc.tpl": "x"})
	for name, c := range map[string]struct {
		src string
		ctx pongo2.Context
	}{
		"with":         {`{% with a=1/0 b=2%0 %}x{% endwith %}`, nil},
		"include":      {`{% include "inc.tpl" with a=1/0 b=2%0 %}`, nil},
		"macro":        {`{% macro m(a=1/0, b=2%0) %}x{% endmacro %}{{ m() }}`, nil},
		"context keys": {`x`, pongo2.Context{"bad key": 1, "other-bad": 2}},
		"macro clash":  {`{% macro a() export %}{% endmacro %}{% macro b() export %}{% endmacro %}`, pongo2.Context{"a": 1, "b": 2}},
	} {
		if n := distinctErrors(t, set, c.src, c.ctx); n > 1 {
			t.Logf("KNOWN FINDING (%s): %d different errors for the same template and context: %s", name, n, c.src)
		} else {
			t.Logf("%s: single error (finding not reproduced in 200 runs)", name)
		}
	}
}

// Known finding C17 (pinned by the upstream fixture template_tests/filters.tpl): escapejs treats the two
// characters backslash + 'r' / 'n' of its INPUT as an escape sequence and emits \u000D / \u000A, so the
// output does not decode to the input's characters.
func TestC17_KNOWN_EscapejsBackslashSequences(t *testing.T) {
	out, err := render(t, newSet(nil), `{{ s|escapejs|safe }}`, pongo2.Context{"s": `a\rb\nc`})
	if err != nil {
		t.Fatal(err)
	}
	want := `a\rb\nc`
	if out != want {
		t.Logf("KNOWN FINDING: %q|escapejs = %q, decoding it gives CR/LF instead of the input's backslash sequences (want %q)", `a\rb\nc`, out, want)
	}
}

// Known finding C07 (pinned by the upstream fixture template_tests/expressions.tpl.out, line 6:
// 531440999967.000000): ^ computes in float also for two integers, so the result prints with six decimals although
// the property says "integer arithmetic on integers".
func TestC07_KNOWN_IntegerPowerPrintsFloat(t *testing.T) {
	out, err := render(t, newSet(nil), `{{ 2 ^ 3 }}`, nil)
	if err != nil {
		t.Fatal(err)
	}
	if out != "8" {
		t.Logf("KNOWN FINDING: {{ 2 ^ 3 }} = %q (want \"8\")", out)
	}
}

// Known finding C16 (pinned by the upstream test TestMisc, pongo2_test.go:63): the error for a template that cannot
// be found names the missing file but carries the line/column of the including template.
func TestC16_KNOWN_MissingIncludePosition(t *testing.T) {
	set := newSet(map[string]string{"main.tpl": "line one\nline two\n   {% include \"gone.tpl\" %}"})
	_, err := set.FromFile("main.tpl")
	if err == nil {
		t.Fatal("no error")
	}
	if e, ok := err.(*pongo2.Error); ok && e.Line > 0 && e.Filename != "main.tpl" {
		t.Logf("KNOWN FINDING: %v (position %d:%d lies in main.tpl, the error names %q)", err, e.Line, e.Column, e.Filename)
	}
}
