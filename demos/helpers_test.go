package demos

// Demonstrations of the genuine defects found by the static rules on the pinned tree.
// Each test fails (or panics) on the pinned tree and passes on the repaired one.
// Run: cd /verif/demos && GOFLAGS=-mod=mod GOPROXY=off go test ./...

import (
	"errors"
	"fmt"
	"io"
	"strings"
	"testing"

	pongo2 "github.com/flosch/pongo2/v6"
)

type memLoader map[string]string

func (m memLoader) Abs(base, name string) string { return name }
func (m memLoader) Get(path string) (io.Reader, error) {
	s, ok := m[path]
	if !ok {
		return nil, fmt.Errorf("not found: %s", path)
	}
	return strings.NewReader(s), nil
}

func newSet(files map[string]string) *pongo2.TemplateSet {
	return pongo2.NewSet("demo", memLoader(files))
}

// render compiles and executes, converting a panic into a test failure.
func render(t *testing.T, set *pongo2.TemplateSet, src string, ctx pongo2.Context) (out string, err error) {
	t.Helper()
	defer func() {
		if e := recover(); e != nil {
			t.Errorf("PANIC rendering %q: %v", src, e)
			err = fmt.Errorf("panic: %v", e)
		}
	}()
	tpl, err := set.FromString(src)
	if err != nil {
		return "", err
	}
	return tpl.Execute(ctx)
}

type failWriter struct{ n int }

func (w *failWriter) Write(b []byte) (int, error) {
	w.n++
	if w.n > 1 {
		return 0, errors.New("writer is broken")
	}
	return len(b), nil
}

type stringer struct{ s string }

func (s stringer) String() string { return s.s }

type intStringer int

func (i intStringer) String() string { return "<i>" }

type withUnexported struct {
	Name string
	name string
}
