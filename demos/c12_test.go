package demos

import "testing"

// C12 "names bound by for (loop variables and forloop) are visible exactly inside that construct" / C09 "forloop …
// describe the current position at every nesting depth": the sequence expression of an inner loop was evaluated in
// the inner loop's own context, where `forloop` is already the new (not yet started) loop.
func TestC12_ForSequenceEvaluatedInEnclosingScope(t *testing.T) {
	src := `{% for a in "ab" %}{% for b in forloop.Counter|make_list %}{{ b }}{% endfor %}{% endfor %}`
	out, err := render(t, newSet(nil), src, nil)
	if err != nil || out != "12" {
		t.Errorf("%s: got %q, %v; want \"12\" (the outer loop's counter)", src, out, err)
	}
}
