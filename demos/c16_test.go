package demos

import (
	"strings"
	"testing"

	"github.com/flosch/pongo2/v6"
)

func asError(t *testing.T, err error) *pongo2.Error {
	t.Helper()
	e, ok := err.(*pongo2.Error)
	if !ok {
		t.Fatalf("want *pongo2.Error, got %T: %v", err, err)
	}
	return e
}

// C16 "every error that carries a position points to a line/column inside the named source at which the reported
// token's text is found".
func TestC16_PositionsBelongToTheNamedSource(t *testing.T) {
	main := "line one\nline two\n   {% include \"inc.tpl\" %}"
	// (1) position-less compile error of an included template was given the includer's position
	set := newSet(map[string]string{"main.tpl": main, "inc.tpl": "{% now %}"})
	_, err := set.FromFile("main.tpl")
	if err == nil {
		t.Fatal("no error")
	}
	if e := asError(t, err); e.Filename != "inc.tpl" || e.Line != 1 {
		t.Errorf("{%% now %%} in inc.tpl: got %v; want a position in inc.tpl line 1", err)
	}
	// (2) lexer error of an included template was reported near a token of the including template
	set = newSet(map[string]string{"main.tpl": main, "inc.tpl": "first\nab {{ \"never closed }}"})
	_, err = set.FromFile("main.tpl")
	if err == nil {
		t.Fatal("no error")
	}
	if e := asError(t, err); e.Filename != "inc.tpl" || e.Line != 2 || (e.Token != nil && e.Token.Filename != "inc.tpl") {
		t.Errorf("lexer error in inc.tpl: got %v (token %v)", err, e.Token)
	}
	// (3) filter errors at execution time carried a position but named no source
	set = newSet(map[string]string{"main.tpl": "a\n {{ \"x\"|pluralize }}"})
	tpl, err := set.FromFile("main.tpl")
	if err != nil {
		t.Fatal(err)
	}
	_, err = tpl.Execute(nil)
	if err == nil {
		t.Fatal("no error")
	}
	if e := asError(t, err); e.Line != 2 || e.Filename != "main.tpl" {
		t.Errorf("filter error: got %v; want main.tpl line 2", err)
	}
	// (4) too many arguments for an imported macro: caller's file name with the definition's position
	set = newSet(map[string]string{
		"lib.tpl":  "\n\n\n\n\n        {% macro m(a) export %}{{ a }}{% endmacro %}",
		"main.tpl": `{% import "lib.tpl" m %}{{ m(1,2,3) }}`,
	})
	tpl, err = set.FromFile("main.tpl")
	if err != nil {
		t.Fatal(err)
	}
	_, err = tpl.Execute(nil)
	if err == nil || strings.Contains(err.Error(), "in main.tpl | Line 6") || !strings.Contains(err.Error(), "in lib.tpl | Line 6") {
		t.Errorf("macro arity error: got %v; want the inner error to name lib.tpl | Line 6", err)
	}
}

// repaired b8c98d2: a load error of import / ssi parsed / extends is not given the referring tag's position
func TestC16_LoadErrorKeepsItsOwnSource(t *testing.T) {
	for _, src := range []string{
		"line one\nline two\n   {% import \"gone.tpl\" m %}",
		"line one\nline two\n   {% ssi \"gone.tpl\" parsed %}",
		"line one\nline two\n   {% extends \"gone.tpl\" %}",
	} {
		set := newSet(map[string]string{"main.tpl": src})
		_, err := set.FromFile("main.tpl")
		if err == nil {
			t.Fatal("no error")
		}
		if e, ok := err.(*pongo2.Error); ok && e.Line > 0 && e.Filename != "main.tpl" {
			t.Errorf("%v: position %d:%d lies in main.tpl, the error names %q", err, e.Line, e.Column, e.Filename)
		}
	}
}
