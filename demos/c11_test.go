package demos

import (
	"bytes"
	"fmt"
	"io"
	"path"
	"strings"
	"testing"

	pongo2 "github.com/flosch/pongo2/v6"
)

type relLoader struct {
	files map[string]string
	log   *[]string
}

func (m relLoader) Abs(base, name string) string {
	if strings.HasPrefix(name, "/") || base == "" {
		return path.Clean(name)
	}
	return path.Join(path.Dir(base), name)
}
func (m relLoader) Get(p string) (io.Reader, error) {
	*m.log = append(*m.log, p)
	if s, ok := m.files[p]; ok {
		return bytes.NewReader([]byte(s)), nil
	}
	return nil, fmt.Errorf("no such template %q", p)
}

// C11 "resolved relative to the referring template": a computed include name written in a child template that
// extends a base in another directory was looked up next to the base.
func TestC11_LazyIncludeRelativeToReferrer(t *testing.T) {
	var log []string
	set := pongo2.NewSet("t", relLoader{map[string]string{
		"/base.html":      `B[{% block c %}{% endblock %}]`,
		"/sub/child.html": `{% extends "../base.html" %}{% block c %}{% include n %}|{% include "part.html" %}{% endblock %}`,
		"/sub/part.html":  `SUBPART`,
		"/part.html":      `ROOTPART`,
	}, &log})
	tpl, err := set.FromFile("/sub/child.html")
	if err != nil {
		t.Fatal(err)
	}
	out, err := tpl.Execute(pongo2.Context{"n": "part.html"})
	if err != nil || out != "B[SUBPART|SUBPART]" {
		t.Errorf("got %q, %v; want B[SUBPART|SUBPART] (asked: %v)", out, err, log)
	}
}

// C11 "a missing name is an error (or nothing, with if_exists)": if_exists on the outer include hid a missing file
// referenced (without if_exists) inside the included template.
func TestC11_IfExistsDoesNotHideNestedMissingFile(t *testing.T) {
	var log []string
	set := pongo2.NewSet("t", relLoader{map[string]string{
		"/outer.html":  `O[{% include "inner.html" if_exists %}]`,
		"/outer2.html": `O[{% include n if_exists %}]`,
		"/outer3.html": `O[{% include "nothere.html" if_exists %}{% include n if_exists %}]`,
		"/inner.html":  `I[{% include "missing.html" %}]`,
	}, &log})
	if tpl, err := set.FromFile("/outer.html"); err == nil {
		out, err := tpl.Execute(nil)
		t.Errorf("static: compiled and rendered %q, %v; want an error for missing.html", out, err)
	}
	tpl, err := set.FromFile("/outer2.html")
	if err != nil {
		t.Fatal(err)
	}
	if out, err := tpl.Execute(pongo2.Context{"n": "inner.html"}); err == nil {
		t.Errorf("lazy: rendered %q; want an error for missing.html", out)
	}
	tpl, err = set.FromFile("/outer3.html")
	if err != nil {
		t.Fatal(err)
	}
	if out, err := tpl.Execute(pongo2.Context{"n": "nothere2.html"}); err != nil || out != "O[]" {
		t.Errorf("if_exists on a missing file itself: got %q, %v; want O[]", out, err)
	}
}
