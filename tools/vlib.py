"""Shared helpers of the evaluation tools: run all claimed checks on a tree in one process and collect the failing
obligations (rule|construct -> reason) per property."""
import json, os, shutil, subprocess, tempfile

ENV = dict(os.environ, VERIF_NO_CONTROLS="1", GOFLAGS="-mod=mod", GOPROXY="off", GOSUMDB="off", GOTOOLCHAIN="local")
ENV.pop("GOWORK", None)
VERIF = os.environ.get("VERIF_DIR", "/verif")  # a worktree of /verif can be evaluated with VERIF_DIR=<path>


def run(cmd, cwd, timeout=1800):
    p = subprocess.run(cmd, cwd=cwd, env=ENV, shell=True, capture_output=True, text=True, timeout=timeout)
    return p.returncode, (p.stdout + p.stderr)


def claimed():
    return [c["property_id"] for c in json.load(open(f"{VERIF}/MANIFEST.json"))["checks"]]


def failing_all(repo):
    """{prop: {rule|construct: reason}} for every claimed property, known findings included (callers subtract a baseline)."""
    sv = tempfile.mkdtemp(prefix="vlib-", dir="/tmp")
    try:
        shutil.copy(f"{VERIF}/known_findings.json", sv)
        run(f"{VERIF}/bin/pongocheck -repo {repo} -verif {sv} -property all", VERIF)
        out = {}
        for p in claimed():
            try:
                cov = json.load(open(os.path.join(sv, "evidence", p + ".json")))["coverage"]
                out[p] = {ob["rule"] + "|" + ob["construct"]: ob.get("reason", "") for ob in (cov.get("failing") or [])}
            except Exception as e:
                out[p] = {"ERROR|" + p: str(e)}
        return out
    finally:
        shutil.rmtree(sv, ignore_errors=True)


_BASE = None


def baseline():
    global _BASE
    if _BASE is None:
        _BASE = failing_all("/repo")
    return _BASE


def new_failing(repo):
    """{prop: {key: reason}} of obligations failing on `repo` but not on /repo."""
    base, cur = baseline(), failing_all(repo)
    res = {}
    for p, d in cur.items():
        n = {k: v for k, v in d.items() if k not in base.get(p, {})}
        if n:
            res[p] = n
    return res


class Worktree:
    """scratch copy of /repo's HEAD (git archive, no worktree metadata) with an optional patch applied; removed on exit"""

    def __init__(self, patch=None, prefix="vwt-"):
        self.patch, self.prefix = patch, prefix

    def __enter__(self):
        self.dir = tempfile.mkdtemp(prefix=self.prefix, dir="/tmp")
        c, o = run(f"git -C /repo archive HEAD | tar -x -C {self.dir}", "/")
        assert c == 0, o
        self.apply_error = None
        if self.patch:
            c, o = run(f"git apply {self.patch}", self.dir)
            if c != 0:
                self.apply_error = o
        return self

    def __exit__(self, *a):
        shutil.rmtree(self.dir, ignore_errors=True)
