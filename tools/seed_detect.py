#!/usr/bin/env python3
"""seed_detect.py [seed-name ...]  — re-runs the claimed static checks against every confirmed seed under
/verif/seeded/<name>/ (patch applied in a scratch worktree of /repo), updates meta.json (caught_by, detected,
detected_by_own_property) and prints a table. Only the seed's own property check plus the checks that caught it
last time are run unless --all is given."""
import json, os, shutil, subprocess, sys, tempfile
from concurrent.futures import ThreadPoolExecutor

ENV = dict(os.environ, VERIF_NO_CONTROLS="1", GOFLAGS="-mod=mod", GOPROXY="off", GOSUMDB="off", GOTOOLCHAIN="local")
ENV.pop("GOWORK", None)
VERIF = "/verif"

def run(cmd, cwd, timeout=900):
    p = subprocess.run(cmd, cwd=cwd, env=ENV, shell=True, capture_output=True, text=True, timeout=timeout)
    return p.returncode, (p.stdout + p.stderr)

def failing(repo, prop, sv):
    run(f"{VERIF}/bin/pongocheck -repo {repo} -verif {sv} -property {prop}", VERIF)
    try:
        cov = json.load(open(os.path.join(sv, "evidence", prop + ".json")))["coverage"]
        return {ob["rule"] + "|" + ob["construct"] for ob in cov.get("failing", [])}
    except Exception as e:
        return {"ERROR|" + str(e)}

BASE = {}

def base(prop):
    if prop not in BASE:
        sv = tempfile.mkdtemp(prefix="sdbase-", dir="/tmp")
        shutil.copy(f"{VERIF}/known_findings.json", sv)
        BASE[prop] = failing("/repo", prop, sv)
        shutil.rmtree(sv, ignore_errors=True)
    return BASE[prop]

def one(name, props):
    d = os.path.join(VERIF, "seeded", name)
    meta = json.load(open(os.path.join(d, "meta.json")))
    wt = tempfile.mkdtemp(prefix="sdwt-", dir="/tmp"); os.rmdir(wt)
    sv = tempfile.mkdtemp(prefix="sdverif-", dir="/tmp")
    shutil.copy(f"{VERIF}/known_findings.json", sv)
    caught = {}
    try:
        c, o = run(f"git -C /repo worktree add -q --detach {wt} HEAD", "/")
        assert c == 0, o
        c, o = run(f"git apply {d}/patch.diff", wt)
        if c != 0:
            return name, meta, {"ERROR": ["patch does not apply: " + o[:200]]}
        for p in props:
            new = failing(wt, p, sv) - base(p)
            if new:
                caught[p] = sorted(new)
    finally:
        run(f"git -C /repo worktree remove --force {wt}", "/")
        shutil.rmtree(wt, ignore_errors=True); shutil.rmtree(sv, ignore_errors=True)
    meta["caught_by"] = caught
    meta["detected"] = bool(caught)
    meta["detected_by_own_property"] = meta["property"] in caught
    json.dump(meta, open(os.path.join(d, "meta.json"), "w"), indent=1)
    return name, meta, caught

def main():
    args = [a for a in sys.argv[1:] if not a.startswith("--")]
    allp = "--all" in sys.argv
    claimed = [c["property_id"] for c in json.load(open(f"{VERIF}/MANIFEST.json"))["checks"]]
    names = args or sorted(os.listdir(os.path.join(VERIF, "seeded")))
    for p in claimed:
        base(p) if allp else None
    jobs = []
    for n in names:
        meta = json.load(open(os.path.join(VERIF, "seeded", n, "meta.json")))
        props = claimed if allp else sorted(set([meta["property"]] + list(meta.get("caught_by", {}).keys())) & set(claimed))
        for p in props:
            base(p)
        jobs.append((n, props))
    with ThreadPoolExecutor(max_workers=4) as ex:
        results = list(ex.map(lambda j: one(*j), jobs))
    subprocess.run("git -C /repo worktree prune", shell=True)
    det = own = 0
    for name, meta, caught in results:
        own_hit = meta["property"] in caught
        det += bool(caught); own += own_hit
        print(f"{name:8} {'OWN ' if own_hit else ('other' if caught else 'MISS ')} " + "; ".join(f"{p}: {', '.join(k.split('|')[0] for k in ks[:3])}" for p, ks in caught.items()))
    print(f"{len(results)} seeds: detected {det}, by own property {own}")

if __name__ == "__main__":
    main()
