#!/usr/bin/env python3
"""seed_detect.py [seed-name ...]  — re-runs all claimed static checks (one process per tree) against every confirmed
seed under /verif/seeded/<name>/ (patch applied in a scratch worktree of /repo's HEAD), updates meta.json (caught_by,
detected, detected_by_own_property) and prints a table."""
import json, os, sys
from concurrent.futures import ThreadPoolExecutor
sys.path.insert(0, os.path.dirname(os.path.abspath(__file__)))
from vlib import VERIF, Worktree, baseline, new_failing


def one(name):
    d = os.path.join(VERIF, "seeded", name)
    meta = json.load(open(os.path.join(d, "meta.json")))
    with Worktree(os.path.join(d, "patch.diff"), "sdwt-") as wt:
        if wt.apply_error:
            return name, meta, {"ERROR": ["patch does not apply: " + wt.apply_error[:200]]}
        caught = {p: sorted(d) for p, d in new_failing(wt.dir).items()}
    meta["caught_by"] = caught
    meta["detected"] = bool(caught)
    meta["detected_by_own_property"] = meta["property"] in caught
    json.dump(meta, open(os.path.join(d, "meta.json"), "w"), indent=1)
    return name, meta, caught


def main():
    names = [a for a in sys.argv[1:] if not a.startswith("--")] or sorted(os.listdir(os.path.join(VERIF, "seeded")))
    baseline()
    with ThreadPoolExecutor(max_workers=8) as ex:
        results = list(ex.map(one, names))
    det = own = 0
    for name, meta, caught in results:
        own_hit = meta["property"] in caught
        det += bool(caught) and "ERROR" not in caught
        own += own_hit
        print(f"{name:8} {'OWN  ' if own_hit else ('other' if caught else 'MISS ')} " + "; ".join(f"{p}: {', '.join((k.replace('|', ':')[:60]) for k in ks[:3])}" for p, ks in caught.items()))
    print(f"{len(results)} seeds: detected {det}, by own property {own}")


if __name__ == "__main__":
    main()
