#!/usr/bin/env python3
"""hunt_run.py <Cxx/fN> ...  — runs a hunter's demo (hunt/<Cxx>/<fN>/demo_test.go.txt) against a scratch copy of /repo's
HEAD (or of its working tree with --worktree) and prints PASS/FAIL with the tail of the output."""
import os, re, shutil, subprocess, sys, tempfile
sys.path.insert(0, os.path.dirname(os.path.abspath(__file__)))
from vlib import run

def main():
    args = [a for a in sys.argv[1:] if not a.startswith("-")]
    wt = "--worktree" in sys.argv
    d = tempfile.mkdtemp(prefix="hunt-", dir="/tmp")
    try:
        if wt:
            run(f"cp -r /repo/. {d}/ && rm -rf {d}/.git", "/")
        else:
            run(f"git -C /repo archive HEAD | tar -x -C {d}", "/")
        for a in args:
            src = f"/verif/{os.environ.get('HUNT_DIR', 'hunt')}/{a}/demo_test.go.txt"
            body = open(src).read()
            tests = re.findall(r"func (Test\w+)\(", body)
            dst = os.path.join(d, "zz_hunt_demo_test.go")
            shutil.copy(src, dst)
            c, o = run(f"go test -vet=off -count=1 -run '^({'|'.join(tests)})$' .", d, timeout=600)
            os.remove(dst)
            print(f"{a}: {'PASS' if c == 0 else 'FAIL'}")
            if "-v" in sys.argv:
                print("    " + "\n    ".join(o.strip().splitlines()[-30:]))
    finally:
        shutil.rmtree(d, ignore_errors=True)

if __name__ == "__main__":
    main()
