#!/usr/bin/env python3
"""seed_eval.py <property-id> <seed-name> <dir with patch.diff, demo_test.go, NOTES.md> [--keep]

Confirms a seeded change in a scratch worktree of /repo (outside /repo and /verif):
  1. patch applies to /repo's HEAD; go build + go vet pass; the full test-suite passes with it
  2. the demonstration FAILS with the change and PASSES without it
  3. runs every claimed static check against the changed tree (pongocheck -repo <worktree>) and records which
     rules report a NEW failing obligation compared with the unchanged tree
and, if 1+2 hold, stores it as /verif/seeded/<seed-name>/{patch.diff, demo_test.go, NOTES.md, meta.json}.
The worktree is removed afterwards.
"""
import json, os, re, shutil, subprocess, sys, tempfile

ENV = dict(os.environ, VERIF_NO_CONTROLS="1", GOFLAGS="-mod=mod", GOPROXY="off", GOSUMDB="off", GOTOOLCHAIN="local")
ENV.pop("GOWORK", None)
VERIF = "/verif"

def run(cmd, cwd, timeout=900):
    p = subprocess.run(cmd, cwd=cwd, env=ENV, shell=True, capture_output=True, text=True, timeout=timeout)
    return p.returncode, (p.stdout + p.stderr)

def failing(repo, prop):
    """set of rule|construct failing for property prop on tree repo"""
    code, out = run(f"{VERIF}/bin/pongocheck -repo {repo} -verif {scratch_verif} -property {prop}", VERIF)
    ev = os.path.join(scratch_verif, "evidence", prop + ".json")
    res = set()
    try:
        cov = json.load(open(ev))["coverage"]
        for ob in cov.get("failing", []):
            res.add(ob["rule"] + "|" + ob["construct"])
    except Exception as e:
        res.add("ERROR|" + str(e))
    return res

def main():
    global scratch_verif
    prop, name, src = sys.argv[1], sys.argv[2], sys.argv[3]
    claimed = [c["property_id"] for c in json.load(open(f"{VERIF}/MANIFEST.json"))["checks"]]
    wt = tempfile.mkdtemp(prefix="seedwt-", dir="/tmp")
    os.rmdir(wt)
    scratch_verif = tempfile.mkdtemp(prefix="seedverif-", dir="/tmp")
    shutil.copy(f"{VERIF}/known_findings.json", scratch_verif)
    meta = {"seed": name, "property": prop, "source_dir": src, "ran": []}
    ok = True
    try:
        c, o = run(f"git -C /repo worktree add -q --detach {wt} HEAD", "/")
        assert c == 0, o
        patch = os.path.abspath(os.path.join(src, "patch.diff"))
        c, o = run(f"git apply --check {patch} && git apply {patch}", wt)
        meta["ran"].append({"cmd": "git apply patch.diff", "rc": c})
        if c != 0:
            print("PATCH DOES NOT APPLY:", o[:500]); ok = False
        if ok:
            c, o = run("go build ./... && go vet ./...", wt)
            meta["ran"].append({"cmd": "go build ./... && go vet ./...", "rc": c})
            if c != 0:
                print("BUILD/VET FAILS:", o[:800]); ok = False
        if ok:
            c, o = run("go test -vet=off -count=1 ./...", wt)
            meta["ran"].append({"cmd": "go test -vet=off -count=1 ./... (with change)", "rc": c, "tail": o[-300:]})
            if c != 0:
                print("EXISTING TESTS FAIL WITH THE CHANGE:", o[-1500:]); ok = False
        demo = os.path.join(src, "demo_test.go")
        tests = re.findall(r"func (Test\w+)\(", open(demo).read())
        race = "-race" if ("-race" in open(os.path.join(src, "NOTES.md")).read() and "race" in open(demo).read().lower()) else ""
        pat = "^(" + "|".join(tests) + ")$"
        if ok:
            shutil.copy(demo, os.path.join(wt, "zz_seed_demo_test.go"))
            c1, o1 = run(f"go test -vet=off -count=1 {race} -run '{pat}' .", wt)
            meta["ran"].append({"cmd": f"demo with change: go test {race} -run {pat}", "rc": c1, "tail": o1[-600:]})
            run(f"git apply -R {patch}", wt)
            c2, o2 = run(f"go test -vet=off -count=1 {race} -run '{pat}' .", wt)
            meta["ran"].append({"cmd": f"demo without change: go test {race} -run {pat}", "rc": c2, "tail": o2[-300:]})
            os.remove(os.path.join(wt, "zz_seed_demo_test.go"))
            run(f"git apply {patch}", wt)
            if c1 == 0:
                print("DEMO DOES NOT FAIL WITH THE CHANGE:", o1[-600:]); ok = False
            if c2 != 0:
                print("DEMO DOES NOT PASS WITHOUT THE CHANGE:", o2[-800:]); ok = False
            meta["demo_tests"] = tests
            meta["needs_race_detector"] = bool(race)
        if ok:
            # static checks: which rules see it
            caught = {}
            base_repo = "/repo"
            for p in claimed:
                new = failing(wt, p) - failing(base_repo, p)
                if new:
                    caught[p] = sorted(new)
            meta["caught_by"] = caught
            meta["detected"] = bool(caught)
            meta["detected_by_own_property"] = prop in caught
            print(("DETECTED by " + json.dumps(caught)) if caught else "NOT DETECTED by any claimed check")
    finally:
        run(f"git -C /repo worktree remove --force {wt}", "/")
        shutil.rmtree(wt, ignore_errors=True)
        shutil.rmtree(scratch_verif, ignore_errors=True)
        run("git -C /repo worktree prune", "/")
    meta["confirmed"] = ok
    if ok:
        dst = os.path.join(VERIF, "seeded", name)
        os.makedirs(dst, exist_ok=True)
        for f in ("patch.diff", "demo_test.go", "NOTES.md"):
            shutil.copy(os.path.join(src, f), dst)
        notes = open(os.path.join(src, "NOTES.md")).read()
        meta["breaks"] = prop
        meta["needs_to_manifest"] = "see NOTES.md"
        json.dump(meta, open(os.path.join(dst, "meta.json"), "w"), indent=1)
        print("stored", dst)
    else:
        print("REJECTED", name)
    return 0 if ok else 1

if __name__ == "__main__":
    sys.exit(main())
