#!/usr/bin/env python3
"""seed_eval.py <property-id> <seed-name> <dir with patch.diff, demo_test.go, NOTES.md> [--keep]

Confirms a seeded change in a scratch worktree of /repo (outside /repo and /verif):
  1. patch applies to /repo's HEAD; go build + go vet pass; the full test-suite passes with it
  2. the demonstration FAILS with the change and PASSES without it
  3. runs every claimed static check against the changed tree (pongocheck -repo <worktree>) and records which
     rules report a NEW failing obligation compared with the unchanged tree
and, if 1+2 hold, stores it as /verif/seeded/<seed-name>/{patch.diff, demo_test.go, NOTES.md, meta.json}.
The worktree is removed afterwards.
"""
import json, os, re, shutil, subprocess, sys, tempfile

sys.path.insert(0, os.path.dirname(os.path.abspath(__file__)))
from vlib import VERIF, new_failing, run

def main():
    prop, name, src = sys.argv[1], sys.argv[2], sys.argv[3]
    wt = tempfile.mkdtemp(prefix="seedwt-", dir="/tmp")
    meta = {"seed": name, "property": prop, "source_dir": src, "ran": []}
    ok = True
    try:
        c, o = run(f"git -C /repo archive HEAD | tar -x -C {wt}", "/")
        assert c == 0, o
        patch = os.path.abspath(os.path.join(src, "patch.diff"))
        c, o = run(f"git apply --check {patch} && git apply {patch}", wt)
        meta["ran"].append({"cmd": "git apply patch.diff", "rc": c})
        if c != 0:
            print("PATCH DOES NOT APPLY:", o[:500]); ok = False
        if ok:
            c, o = run("go build ./... && go vet ./...", wt)
            meta["ran"].append({"cmd": "go build ./... && go vet ./...", "rc": c})
            if c != 0:
                print("BUILD/VET FAILS:", o[:800]); ok = False
        if ok:
            c, o = run("go test -vet=off -count=1 ./...", wt)
            meta["ran"].append({"cmd": "go test -vet=off -count=1 ./... (with change)", "rc": c, "tail": o[-300:]})
            if c != 0:
                print("EXISTING TESTS FAIL WITH THE CHANGE:", o[-1500:]); ok = False
        demo = os.path.join(src, "demo_test.go")
        tests = re.findall(r"func (Test\w+)\(", open(demo).read())
        race = "-race" if ("-race" in open(os.path.join(src, "NOTES.md")).read() and "race" in open(demo).read().lower()) else ""
        pat = "^(" + "|".join(tests) + ")$"
        if ok:
            shutil.copy(demo, os.path.join(wt, "zz_seed_demo_test.go"))
            c1, o1 = run(f"go test -vet=off -count=1 {race} -run '{pat}' .", wt)
            meta["ran"].append({"cmd": f"demo with change: go test {race} -run {pat}", "rc": c1, "tail": o1[-600:]})
            run(f"git apply -R {patch}", wt)
            c2, o2 = run(f"go test -vet=off -count=1 {race} -run '{pat}' .", wt)
            meta["ran"].append({"cmd": f"demo without change: go test {race} -run {pat}", "rc": c2, "tail": o2[-300:]})
            os.remove(os.path.join(wt, "zz_seed_demo_test.go"))
            run(f"git apply {patch}", wt)
            if c1 == 0:
                print("DEMO DOES NOT FAIL WITH THE CHANGE:", o1[-600:]); ok = False
            if c2 != 0:
                print("DEMO DOES NOT PASS WITHOUT THE CHANGE:", o2[-800:]); ok = False
            meta["demo_tests"] = tests
            meta["needs_race_detector"] = bool(race)
        if ok:
            # static checks: which rules see it
            caught = {p: sorted(d) for p, d in new_failing(wt).items()}
            meta["caught_by"] = caught
            meta["detected"] = bool(caught)
            meta["detected_by_own_property"] = prop in caught
            print(("DETECTED by " + json.dumps(caught)) if caught else "NOT DETECTED by any claimed check")
    finally:
        shutil.rmtree(wt, ignore_errors=True)
    meta["confirmed"] = ok
    if ok:
        dst = os.path.join(VERIF, "seeded", name)
        os.makedirs(dst, exist_ok=True)
        for f in ("patch.diff", "demo_test.go", "NOTES.md"):
            shutil.copy(os.path.join(src, f), dst)
        notes = open(os.path.join(src, "NOTES.md")).read()
        meta["breaks"] = prop
        meta["needs_to_manifest"] = "see NOTES.md"
        json.dump(meta, open(os.path.join(dst, "meta.json"), "w"), indent=1)
        print("stored", dst)
    else:
        print("REJECTED", name)
    return 0 if ok else 1

if __name__ == "__main__":
    sys.exit(main())
