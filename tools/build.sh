#!/bin/sh
# builds the checker atomically (running background evaluations keep the old binary)
export GOFLAGS=-mod=mod GOPROXY=off GOSUMDB=off GOTOOLCHAIN=local; unset GOWORK
cd /verif/checker && go build -o /verif/bin/pongocheck.new . && mv /verif/bin/pongocheck.new /verif/bin/pongocheck
