#!/bin/sh
# builds the checker (offline); VERIF_DIR=<worktree of /verif> builds that copy instead
V=${VERIF_DIR:-/verif}
export GOFLAGS=-mod=mod GOPROXY=off GOSUMDB=off GOTOOLCHAIN=local; unset GOWORK
mkdir -p $V/bin
cd $V/checker && go build -o $V/bin/pongocheck.new . && mv $V/bin/pongocheck.new $V/bin/pongocheck
