#!/bin/sh
# Full regression of the checker: quick checks on /repo, mutation self-validation, behaviour-preserving refactorings
# (must stay silent) and confirmed seeds (must be detected).  Usage: tools/regress.sh [quick|mutants|refactors|seeds]...
cd ${VERIF_DIR:-/verif}
what="${*:-quick mutants refactors seeds}"
props="C01 C02 C03 C04 C05 C06 C07 C08 C09 C10 C11 C12 C13 C14 C15 C16 C17 C18 C19 C20"
for w in $what; do
 case $w in
 quick) for p in $props; do ./bin/pongocheck -property $p 2>&1 | grep "VIOLATED\|UNDECIDED\|PANIC\|ERROR\|tier=\|controls" | cut -c1-200; done;;
 mutants) for p in $props; do echo "== $p"; ./bin/pongocheck -property $p -tier thorough 2>&1 | grep "self-valid\|mutant \|VIOLATION" | cut -c1-240; done;;
 refactors) python3 tools/refactor_eval.py --all 2>&1 | grep -v "^WARNING";;
 seeds) python3 tools/seed_detect.py 2>&1 | grep -v "^WARNING" | cut -c1-260;;
 esac
done
