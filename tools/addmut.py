#!/usr/bin/env python3
"""addmut.py ID PROPERTY RULE FILE NOTE  (old and new text read from stdin, separated by a line '=====')"""
import json, sys
mid, prop, rule, file, note = sys.argv[1:6]
old, new = sys.stdin.read().split("\n=====\n")
new = new.rstrip("\n") if not new.endswith("\n\n") else new
path = "/verif/mutants.json"
ms = json.load(open(path))
ms = [m for m in ms if m["id"] != mid]
src = open("/repo/" + file).read()
if src.count(old) != 1:
    print("ERROR: old text occurs", src.count(old), "times"); sys.exit(1)
ms.append({"id": mid, "property": prop, "expect_rule": rule, "file": file, "old": old, "new": new, "note": note})
json.dump(ms, open(path, "w"), indent=1)
print("added", mid, "total", len(ms))
