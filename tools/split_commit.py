#!/usr/bin/env python3
"""split_commit.py <repo> <msgfile1> <selector1> [<msgfile2> <selector2> ...]
Commits the working-tree changes of <repo> as several commits: each hunk goes into the first commit whose selector
(a substring) occurs in the hunk text; hunks matching no selector go into the last commit."""
import re, subprocess, sys
repo = sys.argv[1]
pairs = [(sys.argv[i], sys.argv[i + 1]) for i in range(2, len(sys.argv) - 1, 2)]
d = subprocess.run(["git", "-C", repo, "diff"], capture_output=True, text=True).stdout
subprocess.run(["git", "-C", repo, "checkout", "-q", "--", "."], check=True)
files = [f for f in re.split(r'(?m)^(?=diff --git )', d) if f.strip()]
buckets = [[] for _ in pairs]
for f in files:
    m = re.search(r'(?m)^@@', f)
    head, rest = f[:m.start()], f[m.start():]
    hunks = re.split(r'(?m)^(?=@@ )', rest)
    per = [[] for _ in pairs]
    for h in hunks:
        if not h.strip():
            continue
        idx = len(pairs) - 1
        for i, (_, sel) in enumerate(pairs):
            if sel and re.search(sel, h):
                idx = i
                break
        per[idx].append(h)
    for i, hs in enumerate(per):
        if hs:
            buckets[i].append(head + "".join(hs))
for i, (msgfile, _) in enumerate(pairs):
    if not buckets[i]:
        print("no hunks for", msgfile)
        continue
    patch = "".join(buckets[i])
    p = subprocess.run(["git", "-C", repo, "apply", "--recount", "-"], input=patch, text=True, capture_output=True)
    if p.returncode != 0:
        print("apply failed:", p.stderr)
        sys.exit(1)
    subprocess.run(["git", "-C", repo, "commit", "-q", "-a", "-F", msgfile], check=True)
    print("committed", msgfile)
