#!/bin/sh
# seed_batch.sh <wtroot> <suffixes> <prop>...  : confirm + score the seeds an agent left in <wtroot>/<prop>/SEED/<suffix>
root=$1; shift; sfx=$1; shift
for p in "$@"; do for s in $sfx; do echo "$p $s"; done; done | xargs -P 4 -L 1 sh -c 'python3 /verif/tools/seed_eval.py $0 $0-$1 '"$root"'/$0/SEED/$1 > /tmp/seedeval-$0-$1.log 2>&1; echo "$0-$1: $(grep -h "DETECTED\|REJECTED\|stored\|DOES NOT\|FAIL" /tmp/seedeval-$0-$1.log | tr "\n" " " | cut -c1-600)"'
