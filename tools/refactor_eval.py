#!/usr/bin/env python3
"""refactor_eval.py [--all | <name> <dir with patch.diff>]...

Applies a behaviour-preserving refactoring in a scratch worktree, checks build+tests, runs the claimed static checks
against it (one process, all properties) and prints every NEW failing obligation (= false alarm). Stores confirmed
refactorings under /verif/refactors/<name>/ (patch.diff, NOTES.md, result.json) so they can be re-run as a regression
suite (`--all`)."""
import json, os, shutil, sys
from concurrent.futures import ThreadPoolExecutor
sys.path.insert(0, os.path.dirname(os.path.abspath(__file__)))
from vlib import VERIF, Worktree, baseline, new_failing, run


def one(name, src):
    res = {"name": name, "ok_build_and_tests": False, "false_alarms": {}}
    patch = os.path.abspath(os.path.join(src, "patch.diff"))
    with Worktree(patch, "rfwt-") as wt:
        if wt.apply_error:
            return name, "PATCH DOES NOT APPLY " + wt.apply_error[:300]
        c, o = run("go build ./... && go vet ./... && go test -vet=off -count=1 ./...", wt.dir)
        if c != 0:
            return name, "BUILD/TESTS FAIL " + o[-600:]
        res["ok_build_and_tests"] = True
        res["false_alarms"] = new_failing(wt.dir)
    dst = os.path.join(VERIF, "refactors", name)
    os.makedirs(dst, exist_ok=True)
    if os.path.abspath(src) != os.path.abspath(dst):
        shutil.copy(patch, dst)
        if os.path.exists(os.path.join(src, "NOTES.md")):
            shutil.copy(os.path.join(src, "NOTES.md"), dst)
    json.dump(res, open(os.path.join(dst, "result.json"), "w"), indent=1)
    if res["false_alarms"]:
        lines = ["FALSE ALARMS:"]
        for p, fa in res["false_alarms"].items():
            for k, v in fa.items():
                lines.append(f"    {p} {k} :: {v[:160]}")
        return name, "\n".join(lines)
    return name, "silent"


def main():
    args = sys.argv[1:]
    if args and args[0] == "--all":
        jobs = [(n, os.path.join(VERIF, "refactors", n)) for n in sorted(os.listdir(os.path.join(VERIF, "refactors")))]
    else:
        jobs = [(args[i], args[i + 1]) for i in range(0, len(args) - 1, 2)]
    baseline()
    bad = 0
    with ThreadPoolExecutor(max_workers=6) as ex:
        for name, msg in ex.map(lambda j: one(*j), jobs):
            print(name, msg)
            bad += msg != "silent"
    print(f"{len(jobs)} refactorings, {bad} not silent")
    return 1 if bad else 0


if __name__ == "__main__":
    sys.exit(main())
