#!/usr/bin/env python3
"""refactor_eval.py <name> <dir with patch.diff> [props...]

Applies a behaviour-preserving refactoring in a scratch worktree, checks build+tests, runs the claimed static checks
against it and prints every NEW failing obligation (= false alarm). Stores confirmed refactorings under
/verif/refactors/<name>/ (patch.diff, NOTES.md, result.json) so they can be re-run as a regression suite.
"""
import json, os, shutil, subprocess, sys, tempfile

ENV = dict(os.environ, VERIF_NO_CONTROLS="1", GOFLAGS="-mod=mod", GOPROXY="off", GOSUMDB="off", GOTOOLCHAIN="local")
ENV.pop("GOWORK", None)
VERIF = "/verif"

def run(cmd, cwd, timeout=900):
    p = subprocess.run(cmd, cwd=cwd, env=ENV, shell=True, capture_output=True, text=True, timeout=timeout)
    return p.returncode, (p.stdout + p.stderr)

def failing(repo, prop, sv):
    run(f"{VERIF}/bin/pongocheck -repo {repo} -verif {sv} -property {prop}", VERIF)
    try:
        cov = json.load(open(os.path.join(sv, "evidence", prop + ".json")))["coverage"]
        return {ob["rule"] + "|" + ob["construct"]: ob.get("reason", "") for ob in cov.get("failing", [])}
    except Exception as e:
        return {"ERROR|" + prop: str(e)}

def main():
    name, src = sys.argv[1], sys.argv[2]
    props = sys.argv[3:] or [c["property_id"] for c in json.load(open(f"{VERIF}/MANIFEST.json"))["checks"]]
    wt = tempfile.mkdtemp(prefix="rfwt-", dir="/tmp"); os.rmdir(wt)
    sv = tempfile.mkdtemp(prefix="rfverif-", dir="/tmp")
    shutil.copy(f"{VERIF}/known_findings.json", sv)
    res = {"name": name, "ok_build_and_tests": False, "false_alarms": {}}
    try:
        c, o = run(f"git -C /repo worktree add -q --detach {wt} HEAD", "/")
        assert c == 0, o
        patch = os.path.abspath(os.path.join(src, "patch.diff"))
        c, o = run(f"git apply {patch}", wt)
        if c != 0:
            print(name, "PATCH DOES NOT APPLY", o[:300]); return 1
        c, o = run("go build ./... && go vet ./... && go test -vet=off -count=1 ./...", wt)
        if c != 0:
            print(name, "BUILD/TESTS FAIL", o[-600:]); return 1
        res["ok_build_and_tests"] = True
        for p in props:
            base = failing("/repo", p, sv)
            new = failing(wt, p, sv)
            fa = {k: v for k, v in new.items() if k not in base}
            if fa:
                res["false_alarms"][p] = fa
        if res["false_alarms"]:
            print(name, "FALSE ALARMS:")
            for p, fa in res["false_alarms"].items():
                for k, v in fa.items():
                    print("   ", p, k, "::", v[:160])
        else:
            print(name, "silent (no new failing obligation in", len(props), "checks)")
        dst = os.path.join(VERIF, "refactors", name)
        os.makedirs(dst, exist_ok=True)
        if os.path.abspath(src) != os.path.abspath(dst):
            shutil.copy(patch, dst)
            if os.path.exists(os.path.join(src, "NOTES.md")):
                shutil.copy(os.path.join(src, "NOTES.md"), dst)
        json.dump(res, open(os.path.join(dst, "result.json"), "w"), indent=1)
    finally:
        run(f"git -C /repo worktree remove --force {wt}", "/")
        shutil.rmtree(wt, ignore_errors=True); shutil.rmtree(sv, ignore_errors=True)
        run("git -C /repo worktree prune", "/")
    return 0

if __name__ == "__main__":
    sys.exit(main())
