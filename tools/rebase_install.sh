#!/bin/sh
# rebase_install.sh <name>... : installs /tmp/rebased/<name>.diff (a stored patch rebased onto /repo's HEAD) after
# re-confirming it (seed: tools/seed_eval.py; refactoring: tools/refactor_eval.py).
for n in "$@"; do
  [ -f /tmp/rebased/$n.diff ] || { echo "$n: no rebased diff"; continue; }
  t=$(mktemp -d /tmp/rbi-XXXX)
  cp /tmp/rebased/$n.diff $t/patch.diff
  case $n in
  R*) cp /verif/refactors/$n/NOTES.md $t/ 2>/dev/null; python3 /verif/tools/refactor_eval.py $n $t 2>&1 | grep -v "^WARNING" | cut -c1-400;;
  *) cp /verif/seeded/$n/NOTES.md $t/; if [ -f /tmp/rebased/$n.demo_test.go ]; then cp /tmp/rebased/$n.demo_test.go $t/demo_test.go; else cp /verif/seeded/$n/demo_test.go $t/; fi
     python3 /verif/tools/seed_eval.py $(echo $n | cut -d- -f1) $n $t 2>&1 | grep -v "^WARNING" | cut -c1-600;;
  esac
  rm -rf $t
done
