#!/usr/bin/env python3
"""gen_design_tables.py — rewrites the generated blocks of DESIGN.md (between <!-- BEGIN:x --> and <!-- END:x -->)
from the checker's own output: evidence/*.json (rules, instance counts), known_findings.json (findings, fixed),
seeded/*/meta.json (which checks report which seeded change), refactors/*/result.json, mutants.json."""
import glob, json, os, re, collections

V = "/verif"


def block_rules():
    out = ["| property | rule | instances on the current tree (floor) | what the rule decides |", "|---|---|---|---|"]
    for f in sorted(glob.glob(f"{V}/evidence/C*.json")):
        e = json.load(open(f))
        pid = os.path.basename(f)[:-5]
        for r in e["coverage"].get("rules", []):
            out.append(f"| {pid} | {r['rule']} | {r['instances']} ({r['floor']}) | {r['what'].replace('|', '¦')} |")
    return "\n".join(out)


def block_fixed():
    k = json.load(open(f"{V}/known_findings.json"))
    out = []
    for i, f in enumerate(k["fixed"], 1):
        m = re.match(r"fixed: property=(C\d+) (\w+) (.*)", f)
        out.append(f"{i}. **{m.group(1)}** `{m.group(2)}` — {m.group(3)}")
    return "\n".join(out)


def block_known():
    k = json.load(open(f"{V}/known_findings.json"))
    out = []
    for f in k["findings"]:
        out.append(f"* **{f['property']}** {f['rule']} `{f['construct']}` — {f['what_fails']} (demonstration: `{f['demonstration']}`)")
    return "\n".join(out)


def block_seeds():
    rows = ["| seed | breaks | reported by its own property's rules | also reported by |", "|---|---|---|---|"]
    det = own = n = 0
    for d in sorted(glob.glob(f"{V}/seeded/*/meta.json")):
        m = json.load(open(d))
        n += 1
        cb = m.get("caught_by") or {}
        p = m["property"]
        ownr = sorted({k.split("|")[0] for k in cb.get(p, [])})
        others = sorted(q for q in cb if q != p)
        det += bool(cb)
        own += bool(ownr)
        rows.append(f"| {m['seed']} | {p} | {', '.join(ownr) if ownr else '**missed**'} | {', '.join(others)} |")
    rows.append("")
    rows.append(f"{n} seeds: {det} reported by some check, {own} by the check of the property they break.")
    return "\n".join(rows)


def block_mutants():
    m = json.load(open(f"{V}/mutants.json"))
    lst = m["mutants"] if isinstance(m, dict) else m
    c = collections.Counter(x["property"] for x in lst)
    return f"{len(lst)} mutants: " + ", ".join(f"{p} {c[p]}" for p in sorted(c))


def main():
    s = open(f"{V}/DESIGN.md").read()
    for name, fn in (("rules", block_rules), ("fixed", block_fixed), ("known", block_known), ("seeds", block_seeds), ("mutants", block_mutants)):
        pat = re.compile(rf"(<!-- BEGIN:{name} -->\n).*?(<!-- END:{name} -->)", re.S)
        if not pat.search(s):
            print("no block", name)
            continue
        s = pat.sub(lambda mm: mm.group(1) + fn() + "\n" + mm.group(2), s)
    open(f"{V}/DESIGN.md", "w").write(s)


if __name__ == "__main__":
    main()
