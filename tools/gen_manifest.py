#!/usr/bin/env python3
"""Generates /verif/MANIFEST.json from the table below (kept in one place so it stays valid)."""
import json, os, sys

ROOT = os.path.dirname(os.path.dirname(os.path.abspath(__file__)))
GOENV = "GOFLAGS=-mod=mod GOPROXY=off GOSUMDB=off GOTOOLCHAIN=local GOWORK=off"

TRUST = ("Trusted base: go/types, go/ssa, callgraph/vta of golang.org/x/tools v0.29.0; the reflect kind table and the "
         "specification tables embedded in the checker; ownership classification of memory by Go type. Assumes no unsafe / "
         "reflect.Set* (checked, count 0), user Go funcs/Stringers/loaders/writers outside the engine, configuration API not "
         "called concurrently with rendering. ")

# id -> (technique, what is decided, declined, design ref)
CLAIMED = {
    "C04": ("static effect analysis over go/ssa (store-origin/ownership dataflow + VTA call graph)",
            "every store/map update/delete/append/copy reachable from Execute*/Evaluate/filters writes only per-execution or freshly allocated memory, never compiled-tree types or package variables; no reflect.Set*/unsafe; clock/random/map-order sources enumerated against documented exclusions; writes through sync/atomic count as writes; an object of a per-execution type (e.g. *Error) kept in a package-level variable is shared state, also when a registry-dispatched call hands it out",
            "equality of two renderings as observed values; user-supplied Go code", "DESIGN.md §3 C04"),
    "C05": ("static effect analysis (store-origin/ownership) + lock-region must-dataflow over go/ssa, VTA call graph",
            "every write reachable from concurrently callable entries (Execute*, ExecuteBlocks, From*, Render*, CleanCache, filters) goes to per-execution/fresh memory, to the template under construction, or to set state under the set mutex; the cache map is accessed only under its mutex; sync/atomic writes are synchronised; objects of per-execution types kept in package-level variables are shared and must not be written",
            "that concurrent runs return exactly the sequential outputs (observed equality); races inside user data, user funcs, loaders", "DESIGN.md §3 C05"),
    "C02": ("sink enumeration with text-provenance classification, per-incoming-edge opt-out guards, safe-bit provenance, finite truth-table evaluation of FilterApplied, who-writes-the-mode rule, escape table check",
            "every TemplateWriter sink reachable from execution writes constants/parse-time text, rendered sub-output, numbers, or a value that was escaped or passed an explicit opt-out on every incoming path; values are marked safe only for rendered/constant text, in the documented *_html filters or when unwrapping the same value; FilterApplied of operator nodes is the conjunction of the operands'; the escaping mode is written only by constructors and the autoescape tag with restore; the escape table covers & < > \" '",
            "text reaching the output through user-supplied Go functions that return values marked safe; the filter tag writes its chain result raw (known finding)", "DESIGN.md §3 C02"),
    "C03": ("path-guard (must-pass-through edge) queries, provenance and who-may-write rules over go/ssa + AST uses",
            "every TagParser invocation is reached only on the not-banned edge of a lookup of the same name in the compiling set's ban map (banned edge returns an error); every template-named filter resolution (registry lookup, ApplyFilter with a stored name) is tied to a ban check before a successful return; sub-templates compile through the referring template's set (never the default-set shortcuts); Templates are constructed only by From* with the receiver set; ban maps are written only by BanTag/BanFilter behind freeze/existence/duplicate tests; every template-creating method sets the freeze flag first",
            "nothing of the statement is left to behaviour except that custom tags/filters registered by users are outside the engine", "DESIGN.md §3 C03"),
    "C01": ("reflect typestate abstract interpretation (kind sets, interfaceability, key assignability; first-iteration partitioning; computed predicate summaries), concrete-type-set analysis, path-guard queries, reviewed panic table",
            "every kind-restricted reflect.Value operation has its precondition established on every path; Interface() only on interfaceable values and every pongo2.Value is built from one; MapIndex only with an assignable key; every unchecked type assertion is proven by the operand's concrete types; a pointer asserted out of caller data is dereferenced only under a nil test; integer division/modulo behind a zero test; explicit panic sites reachable from compile/execute are the reviewed ones; resource sinks are capped; every route into a macro body passes the depth guard; the cache mutex is paired and never re-entered",
            "index/slice bounds that depend on runtime integers (except the resolver's), nil-dereference freedom in general, termination/stack depth of structural recursion (self-including templates) and of the spaceless fix-point loop, user-supplied Go code", "DESIGN.md §3 C01"),
    "C08": ("reflect typestate abstract interpretation restricted to the resolver and the Value accessors, sibling cross-check, dominator/path-guard rules on the call protocol and index bounds",
            "the resolver cannot panic on any value kind (typestate); both forms of a step guard map lookups by key assignability and filter struct fields through CanInterface; the reflect Call is preceded by Kind==Func, arity, NumOut, parameter-type and validity tests with error edges and the error result is examined; Index only for 0<=i<Len(); invalid intermediates end with (empty value, nil) while scalars/non-functions are errors; no reflect conversions; Private before Public, Globals before context",
            "that a path denotes exactly the value a reference resolver computes (values are never computed)", "DESIGN.md §3 C08"),
    "C06": ("constant and provenance rules over go/ssa, call-graph reachability, constant-table check",
            "the lexer's end-of-input marker lies outside the rune domain; emit rewrites token values only under a type test excluding TokenHTML and Val is the source slice input[start:pos]; one text node per HTML token holding that token, writing its Val changed only by flag-guarded trims; the comment tag's parser reaches no parsing function and its node does nothing; the templatetag table equals the specification and the node writes the looked-up value; tokenize() runs only on the !inVerbatim edge; after every switch into or out of verbatim mode the scanning loop restarts at its head before another rune is consumed; what the lexer scans is the FromString/FromBytes argument or exactly io.ReadAll of the loader's reader (only string/[]byte conversions in between)",
            "lexer span arithmetic over arbitrary bytes, the concatenation homomorphism, the lexer's acceptance of every other verbatim placement as observed output", "DESIGN.md §3 C06"),
    "C09": ("effect analysis restricted to cycle/ifchanged nodes, path-guard polarity rules, loop-shape rules and linear-form (a*idx+b*count+c) evaluation of stored values over go/ssa",
            "cycle/ifchanged keep state only in the execution context; ifequal/ifnotequal compare (first, second) and run then/else on opposite edges; if runs wrappers[i] on conditions[i] true and the else body only after the last false condition; firstof prints only a true argument and stops; for runs body/empty in their own callbacks with reversed/sorted in place; forloop fields equal their reference linear forms and conditions; IterateOrder passes an item-stepping induction variable and the item count; ifchanged evaluates all watched expressions without early exit and then replaces the remembered list, remembering copies rather than the evaluated *Value; the per-rendering state map is made with the root execution context and shared by reference with every child context",
            "element order under reversed/sorted, nesting arithmetic, the rendered text", "DESIGN.md §3 C09"),
    "C16": ("provenance/pairing rules on Error and Token constructions, role-derived field anchors, path-guard rules on the lexer's column bookkeeping over go/ssa",
            "every compile-time Error construction sets a non-empty Filename; Line and Column always come from Line/Col of the same token, Error.Token is that token and execution errors take Filename from it; lexer tokens record the start-position fields (reset by emit/ignore from the running position) and the lexer's name; next/backup move pos and col by the same width and the column restarts consistently at a newline; a Filename that is the empty constant on some path counts as missing",
            "line/column arithmetic as values (that a reported position really is where the token text is found)", "DESIGN.md §3 C16"),
    "C18": ("unit inference (bytes vs characters) over go/ssa, idiom rules for rounding, constant-argument rules, cap/non-negativity path guards",
            "in the listed sequence/string filters and the rune primitives no comparison/arithmetic mixes byte and character quantities and no string/[]rune is indexed with the wrong unit; widthratio rounds to nearest and computes current/max*width; number parsing/printing is base 10; Repeat counts, computed widths, float precisions and lorem counts are capped by a constant with an error edge and non-negative at the sink",
            "the values of the integer/length-indexed filter families against their Django reference (slice bounds, widths, digit positions, date formats)", "DESIGN.md §3 C18"),
    "C07": ("constant-table extraction (grammar levels, operator sets, symbol table), SSA shape rules (loop vs self-call, case-label/Go-operator/operand-order agreement) and path-guard queries",
            "precedence levels and their operator sets, operand-parsing functions and associativity match the embedded grammar; unary sign/not consumed before the first term; parser/evaluator operator agreement; each case label computes with the Go operator it names, operands in written order, time comparisons with the named method pair; and/or evaluate the second operand only on the open edge of the first's truth; division/modulo guarded by a zero test with an error edge; longest-match symbol order; decimal/%f/True-False printing and base-10 parsing; lexer enters number/identifier/string states only after accepting their own character class; every arithmetic/ordering label computes with its own Go operator on float and on integer operands (in the case or a helper it calls); expression nodes are written only by the parser function that allocates them",
            "numerical results of evaluation (values are never computed)", "DESIGN.md §3 C07"),
    "C17": ("constant-table extraction and exhaustive check of the finite tables; interval abstract interpretation over one rune variable; provenance of returned values",
            "escape/e replacement table = exactly & < > \" ' to entities with & first (sequential non-interference, prefix-free); addslashes table with backslash first; escapejs raw set computed from the guarding comparisons = [A-Za-z] space /, every other write is \\uXXXX of the rune just read; urlencode = url.QueryEscape(input); iriencode raw iff in the constant reserved set = specification, else QueryEscape; safe returns its input; striptags is one ReplaceAllString with a constant pattern which, evaluated on all strings up to length 7 over {<,>,a,/,space}, leaves no complete tag",
            "what the striptags/removetags patterns do on strings outside the enumerated small alphabets; that iriencode/urlencode output decodes to the input", "DESIGN.md §3 C17"),
    "C10": ("path-guard queries, effect/ownership analysis and SSA shape rules (phi/loop, index expressions) over go/ssa",
            "extends links parent/child only behind the root-level and single-parent tests (error edges) and block registration only behind the duplicate test; compile-time stores to Template fields target only the template under construction or a freshly compiled parent (never a cached/shared one); execution runs the document of the template reached by following parent until nil; the block node walks .child from the root, executes the last definition and hands [0:len-1] to Super, which again takes the last; the executor and its helpers execute no node other than the base document; every executed block definition has `block` bound to its own remaining definitions on every path",
            "the rendered text of an inheritance chain as an observed value", "DESIGN.md §3 C10"),
    "C11": ("who-may-call table over resolved callees, loop-shape and path-guard queries, argument provenance over go/ssa",
            "file-system entry points are called only inside TemplateLoader implementations; loaders are invoked only by the set's resolver, in ascending order, first hit returns from inside the loop, total miss is an error; every name handed to FromFile/resolveTemplate is resolveFilename(<referring template>, name) on the referring set, the referring template being the parser's template or a node field that only captures it (never ctx.template, the root of the executing chain); include copies Public/Private only on the !only edge, stores with-pairs on every path and swallows a failed load only under if_exists && Sender==fromfile && Filename==<requested name>; tag code never reaches a cache lookup",
            "rendering equivalence of literal vs computed names; behaviour of user-supplied loaders", "DESIGN.md §3 C11"),
    "C19": ("loop-shape (induction variable, loop-carried phi), provenance and path-guard queries over go/ssa + registry extraction",
            "both chain application sites iterate ascending, thread each output into the next input, return/write the last output, have no successful exit that skips the chain and leave the chain loop early only with an error; a filter's argument is its parameter expression evaluated with the current ctx or AsValue(nil) on all three routes; registry misses are error returns and entries are used only on the hit edge; registries are written only by Register*/Replace* behind existence tests; built-in names are distinct; chains grow only by append; the filter chain is parsed at the factor level; argument expressions of for/with/macro/Super are evaluated in the enclosing context; expression nodes are written only by the parser function that allocates them",
            "equality of chain results with ApplyFilter composition as observed values", "DESIGN.md §3 C19"),
    "C12": ("static effect/ownership analysis + path-guard queries over go/ssa",
            "no map update/delete reachable from execution targets the caller's Context, ExecutionContext.Public, TemplateSet.Globals or package-level Contexts; no reflect.Set*; every ExecutionContext gets a fresh Private map; for/with/macro/block.Super bind names and run their body in a child context; context keys are validated (identifier syntax, macro clash) with error returns before execution; Globals merged before the caller context; Private consulted before Public; every body of a scoping construct (also for's empty branch) runs in the child context; the construct's own argument expressions are evaluated in the enclosing context",
            "visibility probes as observed behaviour (which value a name shows at which point)", "DESIGN.md §3 C12"),
    "C13": ("path-guard and must-pass-through queries over go/ssa + call-graph callers (incl. closures reached by reflection)",
            "every route into a macro body increments the depth counter and is reached only on the within-cap edge of a comparison with a constant whose other edge returns an error; increments are paired with decrements on all exits; positional binding is guarded by the argument-count test (error edge), uses the same index for name and value and happens after the defaults are merged; wrappers forward the argument list unchanged; the result is AsSafeValue of the rendered body",
            "that the i-th argument meets the i-th parameter as an observed value; default-expression values", "DESIGN.md §3 C13"),
    "C14": ("use/def and path-guard queries over go/ssa + concrete-type-set analysis of error values",
            "ExecuteWriter uses the caller's writer only to flush the finished buffer on the err==nil edge and returns the flush error; the four variants funnel into one executor with receiver and context unchanged and return the buffer content untransformed; every err.(*Error) assertion is proven by the concrete types the operand can hold",
            "that the unbuffered variant writes only a leading part of the successful output", "DESIGN.md §3 C14"),
    "C20": ("lock-region must-dataflow, path-guard queries and call-graph reachability over go/ssa",
            "cache map accessed only under the set mutex; Lock/Unlock paired on all exits; lookup and fill in one critical section; fill only on the err==nil edge and never in Debug mode; lookup/fill/delete agree on the normalised key; no re-entry into the mutex from inside the critical section; per-set state freshly allocated per instance; CleanCache clears everything exactly when given no name, deletes each given name and branches on no other set state",
            "the number of loader fetches under a concrete schedule", "DESIGN.md §3 C20"),
}


# clauses decided by rules added in the later parts of the build round (hunter round, sections 9 and 13 of DESIGN.md);
# appended to the "decided" text of the property
ADDED = {
    "C15": "the spaceless pattern is also evaluated on a tag that spans two lines",
    "C01": "reflect hazards beyond kinds: FieldBy* only through FieldByIndexErr (nil embedded pointers), Call only of non-nil functions and only under a deferred recover that returns a panic of the called code as an error, MethodByName never on a nil pointer, interface == only on values shown comparable, MapIndex only with hashable keys; a value never ends up holding itself; template nesting through include/extends/import/ssi is bounded by a constant depth with an error edge at compile and at execution time; the Render* shortcuts do not go through Must; every cycle of the compile-time call graph (recursive-descent parser, tag parsers, template loading) passes a depth step — a counter compared with a constant whose refusing edge returns an error — and cycles through the loading of another template pass one whose counter is carried from template to template; the nesting one execution can put on the stack (compile-time bounds, added where they are counted separately) times the nested executions of a rendering (execution-time bounds, added up) stays within the effective stack of 2^29 bytes at a stated 1.3 KB per level; a context derived from a context carries every integer counter, and the pointer to the rendering's counters, over; a method the engine exposes to templates (block.Super) executes nodes one level deeper, bounded (in the derived context's counter, or behind a depth step of its own); String()/Error() of caller data is called only under a deferred recover; a rune slice converted from a string is sliced with a computed bound only behind a test of its own length; an error is not rendered to text and wrapped again at every level of a recursion it passes; a field that a nesting bound compares with its constant is written only by steps of itself, copies of the same field, counted parameters or the initialisation of a fresh object; the counters behind the execution-time bounds live in one record per rendering that every derived context and every nested template execution shares",
    "C02": "needsEscape and Value.String agree on which kinds print caller text; the safe mark belongs to the value it was given to and is reset at every step of a path",
    "C03": "the freeze flag is set before a template is constructed also when construction goes through unexported helpers (fromFile); every *Template method that takes a Context is an execution entry; the argument parser WrapUntilTag hands back for an intermediate/closing tag is looked at, never dropped",
    "C04": "map keys obtained from reflect are sorted on every path before they are walked; accumulate-then-sort loops over maps are accepted; objects of per-execution types are not kept in package-level variables; a reader obtained from a loader and read by engine code is closed on every path after the read; an object of an exported per-execution type (Error) that registered code may have handed out is never written (it is completed on a copy); no map kept in the compiled tree is put into a template context",
    "C06": "the conditions that switch verbatim mode are constant patterns which, evaluated on all 299 593 strings of up to 6 items over {{%, %}, space, tab, verbatim, endverbatim, x, -}, accept exactly `{%` blanks* (end)verbatim blanks* `%}` at the position, and the lexer advances by the match; text of a verbatim block is never trimmed; nothing reachable from execution reads the source text kept in a Template; the lexer's tag state ends a tag only behind the emission of a symbol, behind an error report or at the end of the input; where the verbatim mark is the mode flag at emission time, nothing is emitted between leaving the mode and the next pass of the loop",
    "C07": "and/or are parsed left-associatively, the right operand of `and` never by a level that accepts `or` (one logical level, or `or` over `and`); `%` has a float form (math.Mod under a zero test with an error edge, operands in written order); and/or, comparisons, `in` and not/! yield AsValue(<Go bool>) on every successful path; ^ yields an integer for integers (violated on the pinned tree: known finding, fixture-pinned); a numeric + is reached only when neither operand is a string; `==` compares integers, floats, strings and booleans through their accessors whenever both operands are of the family; the minus sign in front of a term is not kept as a flag that negates the value of the whole term (except together with `not`): -a * b is (-a) * b",
    "C08": "the resolver and its helpers refer to no package-level variable that changes after initialisation; the variable-name parser returns to its loop head after every step form; a computed list index is Integer() only of a value for which IsInteger() held; every macro parameter is bound (also omitted ones); the reflect Call may be made by a helper that only wraps it (judged at the helper's call site); inside the handling of a step the empty value is returned only from within an arm of the kind switch; the nil test of an error result also looks at what an interface-typed result holds; a resolver loop that follows pointers by Elem() goes on for kind Interface as well",
    "C09": "ifchanged does not decide by EqualValueTo alone (which answers false for nil and uncomparable values); the orderings used by `sorted` compare integers with the integer <; the ordering used by `sorted` and by the iteration over maps chooses the kind of comparison by the classes of the two values alone (walked once per pair of classes {integer, float, other}²): an integer next to a float numerically, a number next to a non-number by class; both forms of ifchanged execute their else-part; a template executed by include/ssi shares the per-execution state of the execution that includes it; every tag that starts a nested execution hands its own context on, on every path; a node installs a fresh state object only where the rendering has none; the content form of ifchanged reaches its else-part only after an earlier execution; Integer()/Float() comparisons in the ordering cannot make distinct numbers tie (saturation, NaN) — numbers are compared exactly; over a map the descending key order is taken exactly under `reversed`; the content form of ifchanged reads "not executed yet" from a remembered content being nil only if no execution can remember nil",
    "C10": "block.Super renders the parent definition in a child of the calling expression's context; `block` is restored after a nested block; ExecutionContext.template is never reassigned while executing; the level the extends parser tests is the one the tag dispatcher raises before it calls a tag's parser; the definition list kept in a block's information record is built for that execution or lies in storage that execution never writes",
    "C12": "the macro-clash test looks at the exported macros of the template Execute was called on; the context-key pattern, evaluated on an exhaustive small alphabet, accepts exactly identifiers that are no keywords; `for` binds every declared loop variable on every path; globals are validated also with a nil context; the resolver looks methods up by name only on values that are not of the library's own Context map type (whose Update writes its receiver); nothing kept in the per-rendering node state holds on to a scope's execution context",
    "C13": "a default expression is evaluated only for a parameter the call omits; a positional argument is bound as the *Value it is; a macro can call itself by its defined name under an import alias",
    "C14": "a pooled output buffer is not aliased by what is returned; ExecuteWriterUnbuffered stops writing after and returns the first writer error; a non-nil error of the caller's writer ends ExecuteWriter with that error on every path, and the flush is not retried; the write-through writer forwards no write without bytes",
    "C16": "an existing error is completed with a token only as a whole (Token, Line and Column together, only when it has no position); execution errors are built with their token instead of being completed later; Parser.Error falls back to the token the parser remembers; an error that names another source is not given a position (violated on the pinned tree: known finding, pinned by TestMisc); every parser constructed for a part of a template is given a token to remember when its token list can be empty; an *Error returned by registered code (a call through a function value: tag parser, filter, the implicit escape filter) is completed with template and token wherever the calling function has a template in reach; an error of another template's loading or execution is not completed with a token of the referring template (the completer refuses such errors; one explicit, fixture-pinned site in the include parser is a known finding); in the scanning function every next() is preceded by a newline test of the coming character",
    "C17": "removetags validates each name with a pattern that accepts exactly letter(letter|digit)* (evaluated exhaustively), and returns the input after ONE pass of removal by expression and nothing else (no trimming); escapejs writes \\uXXXX with four digits (surrogate pairs above U+FFFF) and drops nothing; the result of escape is marked safe; the removetags expression, instantiated for sample names and evaluated on all strings of up to 7 items over {<,>,/,a,b,-,x,space}, matches every plain named tag and nothing that is not a tag of that name; every implicit application of the escape filter by a printing node is reached only when the value is not already marked safe",
    "C18": "every float→int conversion of a runtime value is reached only between an upper and a lower constant bound (saturation); a filter that reads its argument only as a number does not branch on the argument's Go kind; padding filters measure the text they write; make sizes are capped; what widthratio writes never comes from an integer division; FormatFloat in floatformat receives the input's Float() itself; every conversion of a 64-bit unsigned runtime value to a signed integer is reached only below a constant upper bound; integer +, - and x on a number read off a template value happen only after a comparison involving that number (no wrap-around at the ends of the int range); Value.Integer() reads a string through ParseFloat only after an integer parse of it failed; a filter that formats its input with a template-given format does not hand fmt the input's raw Interface() on every path",
    "C19": "filter arguments of the filter tag are resolved at compile time against the registry; a `cycle` value never holds a cycle value; the evaluator inside a filtered-variable node is taken out of it only where its chain is empty; a parser loop that consumes tokens up to a tag's `%}` keeps every token it consumes: the arguments of an end tag are never dropped unseen",
    "C11": "every with-pair of an include is stored, whatever it evaluates to; the error of reading a loader's reader (and of the resolver) ends in an error return when non-nil; every loader's Abs reads its referring-template parameter (siblings agree); a loader that opens names through an fs.FS/http.FileSystem returns cleaned names and joins its base directory with a path function; a computed include loads a name at most once per rendering; the include node succeeds only after executing a template or where if_exists is set; a template fetched from the loaders is compiled under the name it was asked for (or its resolveFilename form), never under a name one loader produced",
    "C05": "a library object that is not safe for concurrent use (a *rand.Rand) kept in a package-level variable is shared state",
    "C20": "the cache is filled by loading the name the caller gave (the same load Debug mode makes), the normalised name being only the key; where the critical section loads a template (loader and registered code run in it) the mutex is released by a deferred Unlock; no call the cache entry point can make while Debug is set reaches a function that writes the cache; what the entry point returns is a fresh load or an entry of the one cache map, and no other field of the set is typed to keep templates",
}

CLAIMED["C15"] = ("constant-table extraction (symbol table, trim cut sets evaluated as character sets), provenance of the text node's flags, path-guard queries, and evaluation of the spaceless pattern (with its fix-point loop) on an exhaustive small alphabet",
    "the delimiters that carry a `-` are exactly `{{-`, `-}}`, `{%-`, `-%}` and a token is flagged only behind the test for such a symbol; a text node's trimLeft/afterBlock come from the token before it and trimRight/beforeBlock from the token after it, afterBlock meaning `%}` and beforeBlock `{%`; in the text node the marker trims cut {space, tab, CR, LF} (only white space) from their own end, LStripBlocks cuts exactly {space, tab} from the right end, TrimBlocks removes exactly one leading byte tested to be LF, each only under its own pair of flags; the spaceless pattern and replacement, applied until nothing changes, delete exactly the white-space runs that have a tag on both sides on all 137 257 strings of up to 6 items over {<a>, </a>, <br/>, x, space, LF, tab}, and the tag writes that result",
    "the metamorphic equality itself (that the output equals rendering the hand-stripped source for every layout); spaceless on malformed markup (stray angle brackets)", "DESIGN.md §3 C15")

NOT_APPLICABLE = {
}

PENDING_REASON = "static rules for this property are designed (DESIGN.md §3) but not yet built in this revision; not claimed until the check exists"

def main():
    props = [json.loads(l)["id"] for l in open(os.path.join(ROOT, "properties.jsonl"))]
    checks = []
    na = []
    for pid in props:
        if pid in CLAIMED:
            tech, decided, declined, ref = CLAIMED[pid]
            if pid in ADDED:
                decided = decided + "; further: " + ADDED[pid]
            checks.append({
                "property_id": pid,
                "quick_cmd": f"./bin/pongocheck -property {pid} -tier quick",
                "thorough_cmd": f"./bin/pongocheck -property {pid} -tier thorough",
                "evidence_file": f"/verif/evidence/{pid}.json",
                "replay_cmd_template": "./bin/pongocheck -replay {path}",
                "engine": "pongocheck",
                "level_claimed": {
                    "category": "other",
                    "text": ("Static analysis of /repo's current source (no execution): structural necessary conditions of the property hold on every path of the engine's Go code, for all inputs/schedules. Decided: " + decided + ". Not decided (declined): " + declined + "."),
                    "design_ref": ref,
                },
                "level_note": TRUST + "Declined part: " + declined + ".",
                "technique": tech,
            })
        elif pid in NOT_APPLICABLE:
            na.append({"property_id": pid, "reason": NOT_APPLICABLE[pid]})
        else:
            na.append({"property_id": pid, "reason": PENDING_REASON})
    m = {
        "version": 1,
        "setup_cmd": f"mkdir -p bin && cd checker && {GOENV} go build -o ../bin/pongocheck .",
        "hooks": {
            "guard": "verif",
            "enable": "none needed: the checker reads registries, lexer and node types statically from /repo's source; no instrumentation is compiled into pongo2",
            "baseline_off_cmd": f"cd /repo && {GOENV} go test -vet=off -count=1 ./...",
            "source_commits": [],
            "add_only": True,
        },
        "engines": [{
            "name": "pongocheck",
            "path": "checker/",
            "serves_properties": sorted(CLAIMED),
            "kind_free_text": "repository-specific static analyser (go/packages + go/ssa + VTA call graph): effect/ownership analysis, path-guard queries, value numbering, reflect typestate, lock regions, constant-table extraction",
        }],
        "checks": checks,
        "not_applicable": na,
        "notes": "All checks are static: they load and type-check /repo's working tree on every run and never execute pongo2. Known genuine defects recorded instead of repaired are in known_findings.json.",
    }
    with open(os.path.join(ROOT, "checker", "proptext_gen.go"), "w") as g:
        g.write("package main\n\n// Code generated by tools/gen_manifest.py; DO NOT EDIT.\n\nfunc init() {\n")
        for pid in sorted(CLAIMED):
            tech, decided, declined, ref = CLAIMED[pid]
            if pid in ADDED:
                decided = decided + "; further: " + ADDED[pid]
            g.write("\tpropText[%s] = [2]string{%s, %s}\n" % (json.dumps(pid), json.dumps("Static analysis (" + tech + "), nothing is executed. Decided: " + decided + "."), json.dumps(declined)))
        g.write("}\n")
    with open(os.path.join(ROOT, "MANIFEST.json"), "w") as f:
        json.dump(m, f, indent=1)
        f.write("\n")
    try:
        import jsonschema
        jsonschema.validate(m, json.load(open("/root/.vp/MANIFEST.schema.json")))
        print("MANIFEST.json valid:", len(checks), "checks,", len(na), "not applicable")
    except ImportError:
        print("MANIFEST.json written (jsonschema not available)")

if __name__ == "__main__":
    main()
